// check: the driver of the deterministic-simulation checks.
//
//	check <Cxx> quick|thorough      run the tier, write evidence/<Cxx>.json
//	check <Cxx> --replay <file>     replay one recorded run (exit 1 if it still violates)
//	check <Cxx> determinism [n]     self-test: run n seeds twice under GOMAXPROCS 1/4/16, compare log hashes
//	check build                     instrument + build only (warms the build cache)
//
// Exit 0: the property held on everything explored (known findings are printed).
// Exit 1: at least one violation that known_findings.json does not list.
// Exit 2: build trouble, harness trouble, watchdog, replay divergence - never with a VIOLATION line.
package main

import (
	"bytes"
	"encoding/json"
	"fmt"
	"os"
	"os/exec"
	"path/filepath"
	"regexp"
	"sort"
	"strconv"
	"strings"
	"sync"
	"time"
)

// verifDir is the root of the verification tree: $VERIF_DIR (set by bin/check from its own location), else the
// parent of the directory holding this executable, else /verif.
var verifDir = func() string {
	if d := os.Getenv("VERIF_DIR"); d != "" {
		return d
	}
	if exe, err := os.Executable(); err == nil {
		if d := filepath.Dir(filepath.Dir(exe)); fileExists(filepath.Join(d, "hsim", "run.go")) {
			return d
		}
	}
	return "/verif"
}()

func fileExists(p string) bool { _, err := os.Stat(p); return err == nil }
var repoDir = "/repo"

var goBin = "/opt/veriftools/go1.26.8/bin/go"

type viol struct {
	Class  string `json:"class"`
	Detail string `json:"detail"`
	Sub    string `json:"sub,omitempty"`
	Count  int    `json:"count,omitempty"`
}

type runResult struct {
	Prop       string                 `json:"prop"`
	Run        int                    `json:"run"`
	Seed       uint64                 `json:"seed"`
	Verdict    string                 `json:"verdict"`
	Class      string                 `json:"class,omitempty"`
	Detail     string                 `json:"detail,omitempty"`
	Plan       []int                  `json:"plan,omitempty"`
	Sched      []int                  `json:"sched,omitempty"`
	LogHash    string                 `json:"log_hash"`
	Stats      map[string]int         `json:"stats,omitempty"`
	Faults     map[string]int         `json:"faults,omitempty"`
	Probes     map[string]int         `json:"probes,omitempty"`
	FakeNS     int64                  `json:"fake_ns"`
	Params     map[string]interface{} `json:"params,omitempty"`
	Trace      []string               `json:"trace,omitempty"`
	Nontrivial bool                   `json:"nontrivial"`
	Notes      []string               `json:"notes,omitempty"`
	Cases      int                    `json:"cases,omitempty"`
	More       []viol                 `json:"more,omitempty"`
	Extra      map[string]interface{} `json:"extra,omitempty"`
	SitesHex   string                 `json:"sites_hex,omitempty"`
	// filled by the driver
	crash  string
	stderr string
}

type scratch struct {
	dir, repo, bin, sites string
}

func env() []string {
	e := os.Environ()
	e = append(e, "GOFLAGS=-mod=mod", "GOPROXY=off", "GOSUMDB=off", "GOTOOLCHAIN=local", "CGO_ENABLED=0")
	return e
}

func trouble(f string, a ...interface{}) {
	fmt.Printf("BUILD-TROUBLE "+f+"\n", a...)
	os.Exit(2)
}

func runCmd(dir string, name string, args ...string) (string, error) {
	cmd := exec.Command(name, args...)
	cmd.Dir = dir
	cmd.Env = env()
	out, err := cmd.CombinedOutput()
	return string(out), err
}

var cleanup []func()

func doCleanup() {
	for _, f := range cleanup {
		f()
	}
	cleanup = nil
}

func exit(code int) {
	doCleanup()
	os.Exit(code)
}

// prepare copies /repo's working tree to a scratch directory, instruments it
// and builds the harness test binary against it.
func prepare() *scratch {
	t0 := time.Now()
	base := os.Getenv("VERIF_SCRATCH_BASE")
	if base == "" {
		base = "/var/tmp"
	}
	dir, err := os.MkdirTemp(base, "verif-scratch-")
	if err != nil {
		trouble("mktemp: %v", err)
	}
	if os.Getenv("VERIF_KEEP_SCRATCH") == "" {
		cleanup = append(cleanup, func() { os.RemoveAll(dir) })
	} else {
		fmt.Fprintln(os.Stderr, "[check] keeping scratch", dir)
	}
	sc := &scratch{dir: dir, repo: filepath.Join(dir, "repo"), bin: filepath.Join(dir, "hsim.test")}
	sc.sites = filepath.Join(sc.repo, "verifsim_sites.txt")
	if out, err := runCmd("/", "rsync", "-a", "--exclude", ".git", repoDir+"/", sc.repo+"/"); err != nil {
		trouble("copy: %v %s", err, out)
	}
	instr := filepath.Join(verifDir, "bin", "verif-instr")
	if _, err := os.Stat(instr); err != nil || stale(instr, filepath.Join(verifDir, "instr")) {
		if out, err := runCmd(filepath.Join(verifDir, "instr"), goBin, "build", "-o", instr, "."); err != nil {
			trouble("building verif-instr: %v\n%s", err, out)
		}
	}
	if out, err := runCmd(sc.repo, instr, sc.repo, filepath.Join(verifDir, "verifsim")); err != nil {
		fmt.Print(out)
		trouble("instrumentation failed: %v", err)
	}
	mod := "module hsim\n\ngo 1.25\n\nrequire (\n\tgithub.com/hprose/hprose-golang/v3 v3.0.0\n\tverifsim v0.0.0\n\tgithub.com/anishathalye/porcupine v1.3.0\n)\n\n" +
		"replace github.com/hprose/hprose-golang/v3 => " + sc.repo + "\n\nreplace verifsim => " + filepath.Join(verifDir, "verifsim") + "\n"
	modfile := filepath.Join(dir, "hsim.mod")
	os.WriteFile(modfile, []byte(mod), 0o644)
	sum, _ := os.ReadFile(filepath.Join(verifDir, "hsim", "go.sum"))
	os.WriteFile(filepath.Join(dir, "hsim.sum"), sum, 0o644)
	if out, err := runCmd(filepath.Join(verifDir, "hsim"), goBin, "test", "-c", "-trimpath", "-tags", "verif", "-modfile="+modfile, "-o", sc.bin, "."); err != nil {
		fmt.Print(out)
		trouble("the instrumented tree or the harness does not build: %v", err)
	}
	fmt.Fprintf(os.Stderr, "[check] scratch %s prepared in %.1fs\n", dir, time.Since(t0).Seconds())
	return sc
}

func stale(bin, srcDir string) bool {
	bi, err := os.Stat(bin)
	if err != nil {
		return true
	}
	st := false
	filepath.Walk(srcDir, func(p string, fi os.FileInfo, err error) error {
		if err == nil && !fi.IsDir() && fi.ModTime().After(bi.ModTime()) {
			st = true
		}
		return nil
	})
	return st
}

// ---- running workers

type job struct {
	prop   string
	seed   uint64
	run    int
	count  int // runs in this process (PerProc)
	replay *replayFile
	trace  bool
	opt    string
	gmp    int
}

type replayFile struct {
	Property string   `json:"property"`
	Class    string   `json:"class"`
	Detail   string   `json:"detail"`
	Seed     uint64   `json:"seed"`
	Run      int      `json:"run"`
	Opt      string   `json:"opt,omitempty"`
	Plan     []int    `json:"plan"`
	Sched    []int    `json:"sched"`
	LogHash  string   `json:"log_hash"`
	Trace    []string `json:"trace,omitempty"`
	Note     string   `json:"note,omitempty"`
}

var crashRe = regexp.MustCompile(`(?m)^(panic: |fatal error: |runtime: )`)

// runJob runs a job; if the worker dies in the middle of a batch, the remaining
// indices are run in a new worker.
func runJob(sc *scratch, cfg *propCfg, j job) []*runResult {
	var all []*runResult
	for {
		rs := runJobOnce(sc, cfg, j)
		all = append(all, rs...)
		done := len(rs)
		if j.count <= 1 || done >= j.count || done == 0 {
			return all
		}
		last := rs[len(rs)-1]
		if last.Verdict != "crash" && last.Verdict != "watchdog" && last.Verdict != "trouble" {
			return all
		}
		j.run += done
		j.count -= done
	}
}

func runJobOnce(sc *scratch, cfg *propCfg, j job) []*runResult {
	tmp, _ := os.CreateTemp(sc.dir, "out-")
	outPath := tmp.Name()
	tmp.Close()
	os.Remove(outPath)
	defer os.Remove(outPath)
	defer os.Remove(outPath + ".params")
	defer os.Remove(outPath + ".current")
	cmd := exec.Command(sc.bin, "-test.run", "^TestWorker$", "-test.timeout", "0")
	gmp := j.gmp
	if gmp == 0 {
		gmp = 1
	}
	e := append(os.Environ(), "GODEBUG=randseednop=0", "GOMAXPROCS="+strconv.Itoa(gmp), "VERIF_PROP="+j.prop,
		"VERIF_SEED="+strconv.FormatUint(j.seed, 10), "VERIF_RUN="+strconv.Itoa(j.run), "VERIF_COUNT="+strconv.Itoa(j.count),
		"VERIF_OUT="+outPath, "VERIF_SITES="+sc.sites, "VERIF_OPT="+j.opt, "GOTRACEBACK=all")
	if j.trace {
		e = append(e, "VERIF_TRACE=1")
	}
	var rpPath string
	if j.replay != nil {
		f, _ := os.CreateTemp(sc.dir, "replay-")
		json.NewEncoder(f).Encode(map[string]interface{}{"plan": j.replay.Plan, "sched": j.replay.Sched})
		f.Close()
		rpPath = f.Name()
		defer os.Remove(rpPath)
		e = append(e, "VERIF_REPLAY="+rpPath)
	}
	cmd.Env = e
	var stderr bytes.Buffer
	cmd.Stderr = &stderr
	cmd.Stdout = &stderr
	if err := cmd.Start(); err != nil {
		return []*runResult{{Prop: j.prop, Run: j.run, Verdict: "trouble", Detail: err.Error()}}
	}
	done := make(chan error, 1)
	go func() { done <- cmd.Wait() }()
	to := time.Duration(cfg.RunTimeout) * time.Second
	if to == 0 {
		to = 120 * time.Second
	}
	watchdog := false
	select {
	case <-done:
	case <-time.After(to):
		watchdog = true
		cmd.Process.Signal(os.Interrupt)
		select {
		case <-done:
		case <-time.After(3 * time.Second):
			cmd.Process.Kill()
			<-done
		}
	}
	var results []*runResult
	if b, err := os.ReadFile(outPath); err == nil {
		for _, line := range bytes.Split(b, []byte("\n")) {
			if len(bytes.TrimSpace(line)) == 0 {
				continue
			}
			r := &runResult{}
			if json.Unmarshal(line, r) == nil {
				results = append(results, r)
			}
		}
	}
	se := stderr.String()
	complete := len(results) >= j.count || (j.count <= 1 && len(results) == 1)
	if !complete {
		// the process died or hung before reporting the run that was in progress
		r := &runResult{Prop: j.prop, Run: j.run + len(results), Seed: j.seed, stderr: se}
		switch {
		case strings.Contains(se, "VERIF-HANG class="):
			// the worker's own guard: a case that did not return in time
			line := se[strings.Index(se, "VERIF-HANG class=")+len("VERIF-HANG class="):]
			if i := strings.Index(line, "\n"); i >= 0 {
				line = line[:i]
			}
			r.Verdict = "crash"
			if i := strings.Index(line, " detail="); i >= 0 {
				r.Class, r.Detail = line[:i], line[i+8:]
			} else {
				r.Class = line
			}
		case watchdog:
			r.Verdict = "watchdog"
			r.Detail = "no result within " + to.String() + "\n" + tail(se, 4000)
		case crashRe.MatchString(se):
			r.Verdict = "crash"
			r.crash = classifyCrash(se)
			r.Class = j.prop + ":process-death:" + r.crash
			if pb, err := os.ReadFile(outPath + ".params"); err == nil {
				r.Params = map[string]interface{}{}
				for _, l := range strings.Split(string(pb), "\n") {
					if kv := strings.SplitN(l, "=", 2); len(kv) == 2 {
						r.Params[kv[0]] = kv[1]
					}
				}
				for _, k := range crashKeys(j.prop) {
					if v, ok := r.Params[k]; ok {
						r.Class += ":" + fmt.Sprint(v)
					}
				}
			}
			r.Detail = tail(head(se, 6000), 6000)
		default:
			r.Verdict = "trouble"
			r.Detail = tail(se, 3000)
		}
		results = append(results, r)
	}
	return results
}

func head(s string, n int) string {
	if len(s) > n {
		return s[:n]
	}
	return s
}
func tail(s string, n int) string {
	if len(s) > n {
		return s[len(s)-n:]
	}
	return s
}

// crashKeys: which run parameters are part of a process-death class.
func crashKeys(prop string) []string {
	if prop == "C04" {
		return []string{"target"}
	}
	if prop == "C05" || prop == "C14" {
		return nil // keyed by crash site alone
	}
	return []string{"mode", "poison", "kind"}
}

var frameRe = regexp.MustCompile(`(?m)^(github\.com/hprose/hprose-golang/v3/[^\s(]+(?:\([^)]*\))?[^\s(]*)\(`)
var hexRe = regexp.MustCompile(`0x[0-9a-f]+|\b\d+\b`)

// classifyCrash normalises a Go crash trace to "<kind>@<innermost hprose frame>".
func classifyCrash(se string) string {
	kind := ""
	for _, line := range strings.Split(se, "\n") {
		if strings.HasPrefix(line, "panic: ") || strings.HasPrefix(line, "fatal error: ") {
			kind = line
			if i := strings.Index(kind, " [recovered]"); i >= 0 {
				kind = kind[:i]
			}
			break
		}
		if strings.HasPrefix(line, "runtime: ") && kind == "" {
			kind = line
		}
	}
	kind = hexRe.ReplaceAllString(kind, "N")
	if len(kind) > 100 {
		kind = kind[:100]
	}
	kind = strings.ReplaceAll(kind, " ", "_")
	frame := "?"
	// first hprose frame after the panic line in the first goroutine dump
	if i := strings.Index(se, "goroutine "); i >= 0 {
		if m := frameRe.FindStringSubmatch(se[i:]); m != nil {
			frame = strings.TrimPrefix(m[1], "github.com/hprose/hprose-golang/v3/")
		}
	}
	return kind + "@" + frame
}

func runAll(sc *scratch, cfg *propCfg, jobs []job, onResult func(*runResult)) {
	nw := 16
	if v := os.Getenv("VERIF_WORKERS"); v != "" {
		nw, _ = strconv.Atoi(v)
	}
	ch := make(chan job)
	var mu sync.Mutex
	var wg sync.WaitGroup
	for i := 0; i < nw; i++ {
		wg.Add(1)
		go func() {
			defer wg.Done()
			for j := range ch {
				rs := runJob(sc, cfg, j)
				mu.Lock()
				for _, r := range rs {
					onResult(r)
				}
				mu.Unlock()
			}
		}()
	}
	for _, j := range jobs {
		ch <- j
	}
	close(ch)
	wg.Wait()
}

// ---- known findings

type knownFinding struct {
	Property   string `json:"property"`
	ID         string `json:"id"`
	What       string `json:"what"`
	ClassRegex string `json:"class_regex"`
	re         *regexp.Regexp
}

type knownFile struct {
	Findings []*knownFinding `json:"findings"`
	Fixed    []string        `json:"fixed"`
}

func loadKnown() *knownFile {
	kf := &knownFile{}
	b, err := os.ReadFile(filepath.Join(verifDir, "known_findings.json"))
	if err != nil {
		return kf
	}
	if err := json.Unmarshal(b, kf); err != nil {
		fmt.Printf("HARNESS-TROUBLE known_findings.json: %v\n", err)
		exit(2)
	}
	for _, f := range kf.Findings {
		f.re = regexp.MustCompile(f.ClassRegex)
	}
	return kf
}

func (kf *knownFile) match(prop, class string) *knownFinding {
	for _, f := range kf.Findings {
		if f.Property == prop && f.re.MatchString(class) {
			return f
		}
	}
	return nil
}

// ---- main

func main() {
	if len(os.Args) < 2 {
		fmt.Println("usage: check <Cxx> quick|thorough | check <Cxx> --replay <file> | check <Cxx> determinism [n] | check build")
		os.Exit(2)
	}
	if g := os.Getenv("VERIF_GO"); g != "" {
		goBin = g
	}
	if d := os.Getenv("VERIF_REPO_DIR"); d != "" {
		repoDir = d // development only: run the checks against another checkout
	}
	if os.Args[1] == "build" {
		prepare()
		fmt.Println("build ok")
		exit(0)
	}
	prop := os.Args[1]
	cfg := props[prop]
	if cfg == nil || len(os.Args) < 3 {
		fmt.Printf("HARNESS-TROUBLE unknown property %q or missing tier\n", prop)
		os.Exit(2)
	}
	seed := uint64(1)
	if v := os.Getenv("VERIF_SEED"); v != "" {
		if n, err := strconv.ParseUint(v, 10, 64); err == nil {
			seed = n
		}
	}
	switch os.Args[2] {
	case "quick", "thorough":
		os.Exit(checkTier(cfg, os.Args[2], seed))
	case "--replay":
		if len(os.Args) < 4 {
			fmt.Println("usage: check <Cxx> --replay <file>")
			os.Exit(2)
		}
		os.Exit(replayCmd(cfg, os.Args[3]))
	case "run": // <Cxx> run <index>: one search-mode run of $VERIF_SEED with its trace (triage aid)
		if len(os.Args) < 4 {
			fmt.Println("usage: check Cxx run <index>")
			os.Exit(2)
		}
		idx, _ := strconv.Atoi(os.Args[3])
		sc := prepare()
		rs := runJob(sc, cfg, job{prop: cfg.ID, seed: seed, run: idx, count: 1, trace: true, opt: os.Getenv("VERIF_OPT")})
		for _, l := range resolveSites(sc, rs[0].Trace) {
			fmt.Println(l)
		}
		fmt.Printf("verdict=%s class=%s\n%s\nparams=%v faults=%v\n", rs[0].Verdict, rs[0].Class, rs[0].Detail, rs[0].Params, rs[0].Faults)
		doCleanup()
		os.Exit(0)
	case "determinism":
		n := 30
		if len(os.Args) > 3 {
			n, _ = strconv.Atoi(os.Args[3])
		}
		os.Exit(determinism(cfg, seed, n))
	default:
		fmt.Println("unknown mode", os.Args[2])
		os.Exit(2)
	}
}

type classInfo struct {
	class  string
	count  int
	first  *runResult
	known  *knownFinding
	replay string
}

func checkTier(cfg *propCfg, tier string, seed uint64) int {
	t0 := time.Now()
	sc := prepare()
	defer doCleanup()
	buildS := time.Since(t0).Seconds()
	n := cfg.Quick
	if tier == "thorough" {
		n = cfg.Thorough
	}
	if v := os.Getenv("VERIF_RUNS"); v != "" {
		n, _ = strconv.Atoi(v)
	}
	per := cfg.PerProc
	if per <= 0 {
		per = 1
	}
	var jobs []job
	for i := 0; i < n; i += per {
		c := per
		if i+c > n {
			c = n - i
		}
		jobs = append(jobs, job{prop: cfg.ID, seed: seed, run: i, count: c, opt: os.Getenv("VERIF_OPT")})
	}
	agg := newAgg(cfg)
	classes := map[string]*classInfo{}
	var order []string
	note := func(r *runResult, class, detail string) {
		ci := classes[class]
		if ci == nil {
			cp := *r
			cp.Class, cp.Detail = class, detail
			ci = &classInfo{class: class, first: &cp}
			classes[class] = ci
			order = append(order, class)
		} else if r.Run < ci.first.Run {
			cp := *r
			cp.Class, cp.Detail = class, detail
			ci.first = &cp
		}
		ci.count++
	}
	runAll(sc, cfg, jobs, func(r *runResult) {
		agg.add(r)
		switch r.Verdict {
		case "violation", "crash":
			note(r, r.Class, r.Detail)
		}
		for _, m := range r.More {
			note(r, m.Class, m.Detail)
		}
	})
	runS := time.Since(t0).Seconds() - buildS
	kf := loadKnown()
	sort.Strings(order)
	exitCode := 0
	var lines []string
	unknown := 0
	knownSeen := map[string]int{}
	for _, class := range order {
		ci := classes[class]
		if k := kf.match(cfg.ID, class); k != nil {
			ci.known = k
			knownSeen[k.ID] += ci.count
			continue
		}
		unknown++
		if unknown > 6 {
			lines = append(lines, fmt.Sprintf("(further unlisted class not minimised: %s, %d runs)", class, ci.count))
			continue
		}
		// minimise, confirm in a fresh process, write the replay file
		rp := minimise(sc, cfg, ci.first, kf)
		if rp == nil {
			lines = append(lines, fmt.Sprintf("UNCONFIRMED property=%s class=%s: the violation of run %d did not reproduce on replay (harness trouble)", cfg.ID, class, ci.first.Run))
			if exitCode == 0 {
				exitCode = 2
			}
			continue
		}
		rdir := filepath.Join(verifDir, "replays")
		if os.Getenv("VERIF_NO_EVIDENCE") != "" {
			rdir = "/var/tmp/verif-try-replays"
		}
		os.MkdirAll(rdir, 0o755)
		path := filepath.Join(rdir, fmt.Sprintf("%s-%d-%d.json", cfg.ID, seed, ci.first.Run))
		b, _ := json.MarshalIndent(rp, "", " ")
		os.WriteFile(path, b, 0o644)
		ci.replay = path
		lines = append(lines, fmt.Sprintf("VIOLATION property=%s replay=%s", cfg.ID, path))
		lines = append(lines, fmt.Sprintf("  class=%s runs=%d first_run=%d\n  %s", rp.Class, ci.count, ci.first.Run, head(rp.Detail, 1500)))
		exitCode = 1
	}
	for _, k := range kf.Findings {
		if k.Property != cfg.ID {
			continue
		}
		lines = append(lines, fmt.Sprintf("KNOWN-FINDING: property=%s %s: %s [observed in %d runs of this check run]", cfg.ID, k.ID, k.What, knownSeen[k.ID]))
	}
	if agg.trouble > 0 {
		lines = append(lines, fmt.Sprintf("HARNESS-TROUBLE %d runs did not report (watchdog %d); first: %s", agg.trouble, agg.watchdog, head(agg.firstTrouble, 2000)))
		if exitCode == 0 && agg.trouble*100 > agg.runs {
			exitCode = 2
		}
	}
	if os.Getenv("VERIF_NO_EVIDENCE") == "" {
		agg.write(sc, cfg, tier, seed, time.Since(t0).Seconds(), buildS, runS, classes, unknown, knownSeen)
	}
	for _, l := range lines {
		fmt.Println(l)
	}
	fmt.Printf("[check] %s %s seed=%d: %d runs, %d distinct non-trivial, %d unlisted violation classes, %d known-finding runs, %.1fs (build %.1fs)\n",
		cfg.ID, tier, seed, agg.runs, len(agg.hashes)+agg.extraInt["distinct_cases"], unknown, sum(knownSeen), time.Since(t0).Seconds(), buildS)
	return exitCode
}

func sum(m map[string]int) int {
	t := 0
	for _, v := range m {
		t += v
	}
	return t
}

func replayCmd(cfg *propCfg, path string) int {
	b, err := os.ReadFile(path)
	if err != nil {
		fmt.Println("HARNESS-TROUBLE", err)
		return 2
	}
	rp := &replayFile{}
	if err := json.Unmarshal(b, rp); err != nil {
		fmt.Println("HARNESS-TROUBLE", err)
		return 2
	}
	sc := prepare()
	defer doCleanup()
	rs := runJob(sc, cfg, job{prop: cfg.ID, seed: rp.Seed, run: rp.Run, count: 1, replay: rp, trace: true, opt: rp.Opt})
	r := rs[0]
	for _, l := range resolveSites(sc, r.Trace) {
		fmt.Println(l)
	}
	fmt.Printf("verdict=%s class=%s\n%s\nlog_hash=%s (recorded %s)\n", r.Verdict, r.Class, r.Detail, r.LogHash, rp.LogHash)
	if r.Verdict == "violation" || r.Verdict == "crash" {
		if r.Class != rp.Class {
			fmt.Printf("note: class differs from the recorded one (%s)\n", rp.Class)
		}
		fmt.Printf("VIOLATION property=%s replay=%s\n", cfg.ID, path)
		return 1
	}
	if rp.LogHash != "" && r.LogHash != rp.LogHash {
		fmt.Println("REPLAY-DIVERGED: the event log differs from the recorded one and the violation did not reproduce")
	}
	return 0
}

func determinism(cfg *propCfg, seed uint64, n int) int {
	sc := prepare()
	defer doCleanup()
	var jobs []job
	for i := 0; i < n; i++ {
		for _, g := range []int{1, 4, 16} {
			for rep := 0; rep < 2; rep++ {
				jobs = append(jobs, job{prop: cfg.ID, seed: seed, run: i, count: 1, gmp: g, opt: os.Getenv("VERIF_OPT")})
			}
		}
	}
	hashes := map[int]map[string]int{}
	runAll(sc, cfg, jobs, func(r *runResult) {
		if hashes[r.Run] == nil {
			hashes[r.Run] = map[string]int{}
		}
		hashes[r.Run][r.Verdict+":"+r.Class+":"+r.LogHash]++
	})
	div := 0
	for i := 0; i < n; i++ {
		if len(hashes[i]) != 1 {
			div++
			fmt.Printf("DIVERGENT run %d: %v\n", i, hashes[i])
		}
	}
	fmt.Printf("determinism %s: %d runs x 6 processes (GOMAXPROCS 1/4/16 x 2): %d divergent\n", cfg.ID, n, div)
	if div > 0 {
		return 2
	}
	return 0
}
