package main

import (
	"encoding/json"
	"fmt"
	"os"
	"path/filepath"
	"sort"
)

// agg accumulates what the runs of one check invocation covered; everything in
// the evidence file is measured here, nothing is a constant.
type agg struct {
	cfg          *propCfg
	runs         int
	cases        int
	hashes       map[string]bool // distinct event-log hashes among non-trivial runs
	faults       map[string]int
	probes       map[string]int
	stats        map[string]int
	params       map[string]map[string]int
	verdicts     map[string]int
	fakeNS       int64
	trouble      int
	watchdog     int
	firstTrouble string
	inconclusive int
	samples      []*runResult
	sites        []byte
	extraInt     map[string]int
}

func newAgg(cfg *propCfg) *agg {
	return &agg{cfg: cfg, hashes: map[string]bool{}, faults: map[string]int{}, probes: map[string]int{}, stats: map[string]int{},
		params: map[string]map[string]int{}, verdicts: map[string]int{}, extraInt: map[string]int{}}
}

func (a *agg) add(r *runResult) {
	a.runs++
	a.verdicts[r.Verdict]++
	switch r.Verdict {
	case "trouble", "watchdog":
		a.trouble++
		if r.Verdict == "watchdog" {
			a.watchdog++
		}
		if a.firstTrouble == "" {
			a.firstTrouble = fmt.Sprintf("run %d: %s", r.Run, r.Detail)
		}
		return
	case "inconclusive":
		a.inconclusive++
	}
	if r.Cases > 0 {
		a.cases += r.Cases
	} else {
		a.cases++
	}
	if r.Nontrivial && r.LogHash != "" {
		a.hashes[r.LogHash] = true
	}
	if hs, ok := r.Extra["case_hashes"].([]interface{}); ok {
		for _, h := range hs {
			a.hashes[fmt.Sprint(h)] = true
		}
	}
	for k, v := range r.Faults {
		a.faults[k] += v
	}
	for k, v := range r.Probes {
		a.probes[k] += v
	}
	for k, v := range r.Stats {
		a.stats[k] += v
	}
	for k, v := range r.Params {
		if a.params[k] == nil {
			a.params[k] = map[string]int{}
		}
		a.params[k][fmt.Sprint(v)]++
	}
	for k, v := range r.Extra {
		if f, ok := v.(float64); ok {
			a.extraInt[k] += int(f)
		}
	}
	a.fakeNS += r.FakeNS
	if r.SitesHex != "" {
		b := []byte(r.SitesHex)
		if len(a.sites) < len(b) {
			a.sites = append(a.sites, make([]byte, len(b)-len(a.sites))...)
		}
		for i, c := range b {
			a.sites[i] |= hexVal(c)
		}
	}
	if len(a.samples) < 3 && r.Verdict == "ok" && r.Nontrivial {
		a.samples = append(a.samples, r)
	}
}

// capCounts keeps the n most frequent entries of a histogram and folds the rest into one line, so that an
// evidence file stays readable when a dimension (a fault position, say) has thousands of values.
func capCounts(m map[string]int, n int) map[string]int {
	if len(m) <= n {
		return m
	}
	keys := make([]string, 0, len(m))
	for k := range m {
		keys = append(keys, k)
	}
	sort.Slice(keys, func(i, j int) bool {
		if m[keys[i]] != m[keys[j]] {
			return m[keys[i]] > m[keys[j]]
		}
		return keys[i] < keys[j]
	})
	out := map[string]int{}
	rest := 0
	for i, k := range keys {
		if i < n {
			out[k] = m[k]
		} else {
			rest += m[k]
		}
	}
	out[fmt.Sprintf("(%d other values, together)", len(keys)-n)] = rest
	return out
}

func capParams(p map[string]map[string]int, n int) map[string]map[string]int {
	out := map[string]map[string]int{}
	for k, m := range p {
		out[k] = capCounts(m, n)
	}
	return out
}

func hexVal(c byte) byte {
	switch {
	case c >= '0' && c <= '9':
		return c - '0'
	case c >= 'a' && c <= 'f':
		return c - 'a' + 10
	}
	return 0
}

func popcount(bs []byte) int {
	n := 0
	for _, b := range bs {
		for ; b != 0; b &= b - 1 {
			n++
		}
	}
	return n
}

func (a *agg) write(sc *scratch, cfg *propCfg, tier string, seed uint64, wall, buildS, runS float64, classes map[string]*classInfo, unknown int, knownSeen map[string]int) {
	// samples: re-run up to two sample runs with tracing so that a reader sees what a run looks like
	var samples []interface{}
	for i, s := range a.samples {
		if i >= 2 {
			break
		}
		rs := runJob(sc, cfg, job{prop: cfg.ID, seed: seed, run: s.Run, count: 1, trace: true, opt: os.Getenv("VERIF_OPT")})
		tr := resolveSites(sc, rs[0].Trace)
		if len(tr) > 60 {
			tr = append(append([]string{}, tr[:40]...), append([]string{fmt.Sprintf("... (%d lines omitted)", len(tr)-60)}, tr[len(tr)-20:]...)...)
		}
		samples = append(samples, map[string]interface{}{"run": s.Run, "params": s.Params, "faults_fired": s.Faults, "stats": s.Stats,
			"verdict": s.Verdict, "tape_lengths": []int{len(s.Plan), len(s.Sched)}, "trace_excerpt": tr, "sample": rs[0].Extra["sample"]})
	}
	if len(samples) == 0 {
		for _, s := range a.samples {
			samples = append(samples, map[string]interface{}{"run": s.Run, "params": s.Params})
		}
	}
	if len(samples) == 0 {
		samples = append(samples, map[string]interface{}{"note": "no non-trivial passing run in this batch"})
	}
	var viols []interface{}
	nviol := 0
	var names []string
	for c := range classes {
		names = append(names, c)
	}
	sort.Strings(names)
	for _, c := range names {
		ci := classes[c]
		e := map[string]interface{}{"class": c, "runs": ci.count, "first_run": ci.first.Run}
		if ci.known != nil {
			e["known_finding"] = ci.known.ID
		} else {
			e["replay"] = ci.replay
			nviol++
		}
		viols = append(viols, e)
	}
	hours := runS / 3600
	if hours <= 0 {
		hours = 1e-9
	}
	cov := map[string]interface{}{
		"evaluations":          a.cases,
		"distinct_nontrivial":  len(a.hashes) + a.extraInt["distinct_cases"],
		"rule":                 cfg.Rule,
		"samples":              samples,
		"simulated_runs":       a.runs,
		"runs_per_hour":        int(float64(a.runs) / hours),
		"seeds":                []uint64{seed},
		"simulated_time_s":     float64(a.fakeNS) / 1e9,
		"faults_fired":         capCounts(a.faults, 120),
		"rare_condition_probes": capCounts(a.probes, 120),
		"scheduler_totals":     a.stats,
		"configurations":       capParams(a.params, 40),
		"verdicts":             a.verdicts,
		"inconclusive_runs":    a.inconclusive,
		"harness_trouble_runs": a.trouble,
		"violation_classes":    viols,
		"known_findings_seen":  knownSeen,
		"real_components":      cfg.Real,
		"stubbed_components":   cfg.Stub,
		"build_s":              buildS,
		"other_counters":       a.extraInt,
	}
	if len(a.sites) > 0 {
		cov["instrumented_sites_executed"] = popcount(a.sites)
	}
	ev := map[string]interface{}{
		"property_id": cfg.ID, "tier": tier, "seed": seed, "level": cfg.Level,
		"coverage": cov, "assumptions": cfg.Assumptions, "wall_s": wall, "violations": nviol,
	}
	os.MkdirAll(filepath.Join(verifDir, "evidence"), 0o755)
	b, _ := json.MarshalIndent(ev, "", " ")
	os.WriteFile(filepath.Join(verifDir, "evidence", cfg.ID+".json"), append(b, '\n'), 0o644)
}
