package main

import (
	"fmt"
	"os"
	"regexp"
	"strconv"
	"strings"
	"sync"
	"time"
)

// minimise shrinks the tape of a violating run by delta debugging (zeroing and
// truncating: value 0 is the benign choice everywhere), with the predicate
// "same property, same violation class", and confirms the result in a fresh
// process. It returns nil if the original run does not reproduce.

type cand struct {
	plan, sched []int
}

func trimZeros(v []int) []int {
	n := len(v)
	for n > 0 && v[n-1] == 0 {
		n--
	}
	return v[:n]
}

func clone(v []int) []int { return append([]int(nil), v...) }

func minimise(sc *scratch, cfg *propCfg, first *runResult, kf *knownFile) *replayFile {
	opt := os.Getenv("VERIF_OPT")
	class := first.Class
	tests := 0
	test := func(c cand, trace bool) (*runResult, bool) {
		tests++
		rs := runJob(sc, cfg, job{prop: cfg.ID, seed: first.Seed, run: first.Run, count: 1,
			replay: &replayFile{Plan: c.plan, Sched: c.sched}, trace: trace, opt: opt})
		r := rs[0]
		ok := (r.Verdict == "violation" || r.Verdict == "crash") && r.Class == class
		if !ok {
			for _, m := range r.More {
				if m.Class == class {
					ok = true
					r.Class, r.Detail = m.Class, m.Detail
				}
			}
		}
		return r, ok
	}
	cur := cand{clone(first.Plan), clone(first.Sched)}
	if first.Verdict == "crash" && len(cur.plan) == 0 && len(cur.sched) == 0 {
		// the process died before reporting: recover the tape by re-running the
		// same seed with a tape recorder
		p, s := recordTape(sc, cfg, first, opt)
		cur = cand{p, s}
	}
	r0, ok := test(cur, false)
	if !ok {
		fmt.Fprintf(os.Stderr, "[minimise] %s run %d did not reproduce: got verdict=%s class=%s\n", class, first.Run, r0.Verdict, r0.Class)
		return nil
	}
	budget := 500
	// wall-clock budget per violation class (seconds)
	deadline := time.Now().Add(45 * time.Second)
	if v := os.Getenv("VERIF_MIN_SECONDS"); v != "" {
		if n, err := strconv.Atoi(v); err == nil {
			deadline = time.Now().Add(time.Duration(n) * time.Second)
		}
	}
	over := func() bool { return tests >= budget || time.Now().After(deadline) }
	parallel := func(cs []cand) []bool {
		out := make([]bool, len(cs))
		var wg sync.WaitGroup
		sem := make(chan struct{}, 16)
		for i := range cs {
			wg.Add(1)
			sem <- struct{}{}
			go func(i int) {
				defer wg.Done()
				_, out[i] = test(cs[i], false)
				<-sem
			}(i)
		}
		wg.Wait()
		return out
	}
	shrink := func(get func(cand) []int, set func(cand, []int) cand) {
		// 1. everything zero
		if len(get(cur)) == 0 {
			return
		}
		if _, ok := test(set(cur, nil), false); ok {
			cur = set(cur, nil)
			return
		}
		// 2. shortest failing prefix (coarse)
		for !over() {
			v := get(cur)
			if len(v) < 2 {
				break
			}
			var cs []cand
			var cuts []int
			for _, frac := range []int{8, 4, 2} {
				k := len(v) - len(v)/frac
				if k < len(v) {
					cs = append(cs, set(cur, clone(v[:k])))
					cuts = append(cuts, k)
				}
			}
			res := parallel(cs)
			best := -1
			for i := range cs {
				if res[i] && (best < 0 || cuts[i] < cuts[best]) {
					best = i
				}
			}
			if best < 0 {
				break
			}
			cur = cs[best]
		}
		// 3. zero chunks
		for size := len(get(cur)) / 2; size >= 1 && !over(); size /= 2 {
			v := get(cur)
			var cs []cand
			var starts []int
			for i := 0; i < len(v); i += size {
				allZero := true
				for j := i; j < i+size && j < len(v); j++ {
					if v[j] != 0 {
						allZero = false
					}
				}
				if allZero {
					continue
				}
				w := clone(v)
				for j := i; j < i+size && j < len(w); j++ {
					w[j] = 0
				}
				cs = append(cs, set(cur, w))
				starts = append(starts, i)
				if len(cs) >= 48 {
					break
				}
			}
			if len(cs) == 0 {
				continue
			}
			res := parallel(cs)
			// apply successful zeroings one after another
			// first try all successful zeroings together, then one after another
			all := clone(get(cur))
			nok := 0
			for i := range cs {
				if res[i] {
					nok++
					for j := starts[i]; j < starts[i]+size && j < len(all); j++ {
						all[j] = 0
					}
				}
			}
			if nok > 1 {
				if _, ok := test(set(cur, all), false); ok {
					cur = set(cur, all)
					continue
				}
			}
			for i := range cs {
				if !res[i] || over() {
					continue
				}
				w := clone(get(cur))
				for j := starts[i]; j < starts[i]+size && j < len(w); j++ {
					w[j] = 0
				}
				if _, ok := test(set(cur, w), false); ok {
					cur = set(cur, w)
				}
			}
		}
		cur = set(cur, trimZeros(get(cur)))
	}
	shrink(func(c cand) []int { return c.sched }, func(c cand, v []int) cand { return cand{c.plan, v} })
	shrink(func(c cand) []int { return c.plan }, func(c cand, v []int) cand { return cand{v, c.sched} })
	// lower remaining plan values towards 1
	for i := 0; i < len(cur.plan) && !over(); i++ {
		if cur.plan[i] > 1 {
			w := clone(cur.plan)
			w[i] = 1
			if _, ok := test(cand{w, cur.sched}, false); ok {
				cur.plan = w
			}
		}
	}
	// confirm in a fresh process, with the trace
	r, ok := test(cur, true)
	if !ok {
		r, ok = test(cur, true)
		if !ok {
			fmt.Fprintf(os.Stderr, "[minimise] minimised tape of %s stopped reproducing\n", class)
			return nil
		}
	}
	// second confirmation: identical event log
	r2, ok2 := test(cur, false)
	note := fmt.Sprintf("minimised with %d re-executions from %d+%d to %d+%d tape entries (plan+sched)", tests, len(first.Plan), len(first.Sched), len(cur.plan), len(cur.sched))
	if !ok2 || r2.LogHash != r.LogHash {
		note += "; WARNING: two replays of the minimised tape gave different event logs"
	}
	tr := resolveSites(sc, r.Trace)
	if len(tr) > 400 {
		tr = append(append([]string{}, tr[:100]...), append([]string{"..."}, tr[len(tr)-300:]...)...)
	}
	return &replayFile{Property: cfg.ID, Class: r.Class, Detail: r.Detail, Seed: first.Seed, Run: first.Run, Opt: opt,
		Plan: cur.plan, Sched: cur.sched, LogHash: r.LogHash, Trace: tr, Note: note}
}

func recordTape(sc *scratch, cfg *propCfg, first *runResult, opt string) ([]int, []int) {
	// the tape is a pure function of (seed, property, run): ask a worker to
	// print it without running the scenario
	rs := runJob(sc, cfg, job{prop: cfg.ID, seed: first.Seed, run: first.Run, count: 1, opt: opt + ",tapeonly=1"})
	if len(rs) > 0 {
		return rs[0].Plan, rs[0].Sched
	}
	return nil, nil
}

var siteRefRe = regexp.MustCompile(`@(\d+)$`)

// resolveSites replaces the instrumentation site numbers at the end of trace
// lines by their source positions, so that a replay file reads without the
// scratch copy it was made from.
func resolveSites(sc *scratch, lines []string) []string {
	b, err := os.ReadFile(sc.sites)
	if err != nil {
		return lines
	}
	pos := map[string]string{}
	for _, l := range strings.Split(string(b), "\n") {
		p := strings.SplitN(l, "\t", 3)
		if len(p) >= 2 {
			pos[p[0]] = p[1]
			if len(p) == 3 && p[2] != "" {
				pos[p[0]] += " " + p[2]
			}
		}
	}
	out := make([]string, len(lines))
	for i, l := range lines {
		out[i] = siteRefRe.ReplaceAllStringFunc(l, func(m string) string {
			if p, ok := pos[m[1:]]; ok {
				return "@" + p
			}
			return m
		})
	}
	return out
}
