package main

// Per-property configuration of the driver: how many runs each tier explores,
// how runs are packed into worker processes, and the texts that go into the
// evidence file. Budgets are run counts, not seconds, so that a seed means the
// same exploration on any machine.

type propCfg struct {
	ID       string
	Quick    int // simulated runs in the quick tier
	Thorough int
	// PerProc: runs executed by one worker process (1 for everything that runs
	// under the scheduler: process-global registries make in-process batches
	// non-replayable).
	PerProc     int
	Level       string
	Rule        string
	Assumptions []string
	Real        []string
	Stub        []string
	// RunTimeout (seconds of real time) for one worker process.
	RunTimeout int
}

var commonReal = []string{
	"every line of hprose-golang under test, in its instrumented scratch copy (statement-level yields, TryLock-based lock acquisition, tape-ordered select, sorted map iteration)",
	"Go standard library incl. net/http client and server, fasthttp, fasthttp/websocket, concurrent-map, json-iterator",
}
var commonStub = []string{
	"OS sockets and the network between them (hsim/simnet: in-memory stream and datagram endpoints with controller-decided delivery)",
	"the clock (testing/synctest fake time)", "goroutine scheduling of instrumented code (verifsim)", "math/rand seed",
}

var simAssumptions = []string{
	"the source rewrites (R1-R9 of DESIGN.md) only add scheduling points or fix a choice the runtime makes at random",
	"preemption granularity is the Go statement; races inside one statement are out of reach of the serialising scheduler",
	"kernel socket behaviour is modelled by simnet: EOF/ECONNRESET/black hole/datagram loss, no TLS, no DNS",
}

const ruleTail = "; every scheduling decision, delivery and fault comes from the tape; a run is non-trivial if it had more than one task switch inside instrumented code or at least one fault fired; distinct = distinct event-log hashes (the log contains every controller decision and every history event)"

func simProp(id string, quick, thorough int, level, rule string) *propCfg {
	return &propCfg{ID: id, Quick: quick, Thorough: thorough, PerProc: 1, Level: level, RunTimeout: 120,
		Rule: "one evaluation = one simulated run (one synctest bubble in its own OS process): " + rule + ruleTail,
		Assumptions: simAssumptions, Real: commonReal, Stub: commonStub}
}

var ioReal = []string{"every line of hprose-golang's io package (encoder, decoder, pools, formatter), uninstrumented code paths included"}

var props = map[string]*propCfg{
	"C04": {ID: "C04", Quick: 2000, Thorough: 200000, PerProc: 20, Level: "fault_enumeration", RunTimeout: 120,
		Rule: "one run = one valid stream (a generated value encoded by the real encoder, or an RPC request / response produced by the real client / service codec; at most 400 bytes) under: every truncation; at every offset substitution by 10 tape-chosen bytes of a 48-byte dictionary (all Hprose tags, digits, marks, 0x00/0x80/0xff), deletion and insertion of 4 of them; every count, length, reference index and integer replaced by -1, 0, n-1, n+1, 99, 70000, 2^31-1, 2^31, 10^11 and a 22-digit number; 40 tape-drawn compositions of 2-4 such faults; each faulty stream is decoded from memory (and every third through the fragmenting simulated reader) into interface{}, its own type and four tape-chosen of 28 destination types, or handed to a real Service (Service.Handle) as a request, or to the real client codec as a response; evaluations counts decodes, distinct_nontrivial counts distinct faulty streams",
		Assumptions: []string{"allocation is measured with runtime/metrics in a single-goroutine worker (GOMAXPROCS=1); bound: 1 MiB + 1024 x input length", "a 4 GiB address-space limit turns absurd allocations into an attributable process death", "arbitrary byte strings are covered only as far as composed faults of valid streams reach"},
		Real: append(append([]string{}, ioReal...), "rpc/core client and service codecs, Service.Handle with method lookup and argument decoding"), Stub: []string{"the bytes in flight (fault injector), the io.Reader (simReader)"}},
	"C05": {ID: "C05", Quick: 8000, Thorough: 400000, PerProc: 100, Level: "fault_enumeration", RunTimeout: 300,
		Rule: "one run = one valid stream (1-4 values from the type-directed generator encoded by the real encoder in simple or reference mode; one run in six truncated, one in six followed by trailing bytes) decoded through the simulated io.Reader under: every two-way split position, every fixed chunk size 1-64 and 255/256/257, 299/300/301, 511/512/513, each with EOF reported with or after the last chunk, five buffer sizes and pooled decoders used before on a failing input, plus 24 tape-drawn chunk sequences with zero-byte reads of which 8 with an injected I/O error at a tape-chosen offset; evaluations counts (stream, fragmentation) pairs, distinct_nontrivial counts the pairs of this run set in which the reader was read more than twice (streams differ between runs by construction: distinct run seeds)",
		Assumptions: []string{"the in-memory decoder is the reference: a defect shared by both paths is invisible to this differential oracle", "values are compared with reflect.DeepEqual (NaN-aware)"},
		Real: ioReal, Stub: []string{"the io.Reader handed to the decoder (simReader: fragmentation, zero-byte reads, EOF placement, injected error)"}},
	"C09": simProp("C09", 3000, 150000, "exploration", "2-8 concurrent callers (1-2 calls each, unique nonces) on one client over one multiplexed connection (socket, websocket over net/http and fasthttp, udp) against (a) the real service whose functions park until the controller releases them, so the server completion order is a tape decision, with and without worker pool, (b) a scripted raw peer that answers in any order, answers twice, injects responses with ids that match no pending call, with the request counter preset just below its wrap-around, (c) reverse calls from the service to 1-2 providers over mock/socket/websocket"),
	"C11": simProp("C11", 2400, 60000, "exploration", "the matrix poison (33 kinds: panics of six value kinds in service functions, missing-method handler, invoke and IO plugins, timeout-wrapped functions; undecodable, truncated, type-mismatched, under- and over-supplied arguments; raw-peer frames that are short, carry a bad CRC or lie about their length, in both directions; websocket messages of 0-3 bytes in both directions; requests and responses too large for udp) x transport kind is enumerated by run index; each run has healthy sentinel calls before, concurrently with (same connection and another client) and after the poison plus a fresh client at the end, worker pool on/off from the tape; the process must survive (a dead worker process is classified by its crash trace)"),
	"C15": simProp("C15", 3000, 100000, "exploration", "histories of 1-25 operations over {Use(1-3 handlers), Unuse(1-3 handlers), Call} on a client and on a service (mock transport) drawn from a pool of nine handlers with pairwise distinct code pointers (invoke handlers, IO handlers, two-sided plugins, plugin objects), some calls short-circuited at a tape-chosen handler, checked mark by mark against a list model; a second pool with two instances of one plugin type and two closures of one literal; and concurrent runs (1-3 callers parking inside handlers, 1-2 tasks running Use/Unuse, statement-level preemption inside the plugin manager) whose per-manager histories are checked for linearizability with porcupine"),
	"C16": simProp("C16", 2400, 60000, "fault_enumeration", "cluster plugins of a real client in front of a scripted innermost IO handler that records (attempt, target URL) and plays an outcome script; enumerated by run index: mode {failover, failtry, failfast} x retry {0..3} x idempotent default x per-call idempotent override {none,true,false} x per-call retry override x servers {1..4} x every outcome sequence over {success, error, panic} up to retry+2 attempts (in blocks of 45 sequences per run, back-off sleeps on the fake clock); forking and broadcast with every per-server outcome vector and the branch completion order decided by the tape; 2-3 concurrent failover calls sharing the failover index (sampled); evaluations counts calls"),
	"C17": simProp("C17", 3000, 150000, "exploration", "concurrent limiter: 2-10 tasks through ConcurrentLimiter.Handler with max 1-4, a scripted next handler that sleeps on the fake clock, returns errors or panics, with and without wait timeout, stalls so that a timeout fires while a release is pending; the number of tasks inside next is checked against max before every scheduling decision; rate limiter: sequences and 2-4 concurrent groups of Acquire/IOHandler/InvokeHandler with rate, burst and timeout drawn per run and statement-level preemption inside Acquire; admission events are checked pairwise against burst + rate x elapsed"),
	"C18": simProp("C18", 3500, 100000, "exploration", "each of the seven balancers as IO handler in front of a scripted next handler that records ClientContext.URL and succeeds, fails or panics; enumerated by run index: every weight vector with 1-4 servers and weights 1-4 for the per-cycle count checks of round-robin, weighted and smooth weighted round-robin (three full cycles each); sampled: success/error/panic histories with 1-6 concurrent callers and statement-level preemption in the index and counter updates (valid server, no panic, counters return to zero), least-active picks with calls parked in flight by the tape (sequential picks and picks racing with arrivals and departures) checked for membership in the set of least-loaded servers, and designed failure scenarios for the failure-aware kinds; evaluations counts picks"),
	"C20": simProp("C20", 3000, 60000, "fault_enumeration", "CircuitBreaker as two-sided plugin of a real client in front of a scripted innermost IO handler that counts invocations and succeeds, fails or panics; enumerated by run index: every script of length 1-6 over {success, error, panic} x {no clock advance, just below, exactly at, twice the recovery time} for thresholds {0,1,2,5}, with and without mock service, in blocks of 250 scripts per run, each decision checked against the must-forward / must-reject envelope of DESIGN.md A.5; sampled: failure-heavy scripts of length 7-26, and 2-4 concurrent callers with statement-level preemption inside the breaker whose entry/exit histories are checked for linearizability against the same envelope (porcupine); evaluations counts scripts"),
	"C19": simProp("C19", 3000, 100000, "exploration", "a real Broker on a real Service over the mock transport; 1-3 consumers (raw pollers calling '<' in a loop, with subscribe/unsubscribe operations from a control task during traffic and optional pauses longer than the heartbeat; or real Prosumers with callbacks), 1-3 producers (broker-side Push and client-side unicast/multicast/broadcast), 1-3 topics, broker Timeout and HeartBeat drawn per run so that they are crossed, stalls so that a poll time-out fires while a publish is in progress, statement-level preemption inside broker, message cache and prosumer; every message carries a unique id; after the producers finish the consumers drain; the recorded history (sub, unsub, pub, poll, callback, OnUnsubscribe) is checked for exactly-once, no foreign delivery, no loss and publish-order per (client, topic)"),
	"C14": simProp("C14", 3000, 150000, "exploration", "2-4 tasks calling Marshal, Formatter{Simple:false}.Marshal, Marshal+Unmarshal round trips (input buffer overwritten afterwards) and the client codec on five families of struct types (nested, mutually recursive, embedded, tagged, containers of structs) that the process has never used before - every run is a fresh process, so every registry is cold - with statement-level preemption in the type registries, coder pools, struct coders, pointer decoders and converters (PCT and random policies); plus sequences on the pooled encoders and decoders alternating simple/reference mode, decoder options, failing and succeeding inputs from 1-3 tasks; every result is compared with the same call executed alone afterwards and, for round trips, with the original value"),
	"C12": simProp("C12", 3000, 60000, "fault_enumeration", "an IO-level echo handler on a real service and raw Client.Request, so transports carry opaque attributable bytes (PRNG stream keyed by message id; some look like frame headers); half of the runs are benign (all seven transport kinds, 1-4 concurrent requesters, lengths from a boundary catalogue 0..131072, fragmenting delivery), the other half enumerate by run index the fault matrix: every single-bit corruption of a socket (96) or udp (64) frame header in each direction, declared-versus-actual length combinations in each direction, a short datagram after a larger one from another client, HTTP bodies cut by a close before Content-Length bytes arrived; raw peers are harness code speaking the wire layouts restated in DESIGN.md"),
	"C13": simProp("C13", 1200, 30000, "fault_enumeration", "the matrix transport kind (7) x limit {0,1,7,64,1000,65499,default} x length declaration {truthful; HTTP chunked in one or many chunks; socket/udp header declaring fewer or more bytes than follow} is enumerated by run index; each run sends bodies of limit-1, limit, limit+1 and 4*limit+100 bytes (exact sizes, valid hprose calls where the size allows) through the real client or a raw peer to a real service with a counting IO plugin and a counting published function, under tape-chosen fragmenting delivery schedules"),
	"C10": simProp("C10", 3000, 120000, "exploration", "a real client and real service over the simulated network (all seven transport kinds), 1-8 calls, 1-2 faults (peer close/reset/silence at a tape-chosen byte offset of either direction, datagram loss, dial failure, Client.Abort or context cancellation started at a tape-chosen step, slow service functions)"),
}
