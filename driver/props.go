package main

// Per-property configuration of the driver: how many runs each tier explores,
// how runs are packed into worker processes, and the texts that go into the
// evidence file. Budgets are run counts, not seconds, so that a seed means the
// same exploration on any machine.

type propCfg struct {
	ID       string
	Quick    int // simulated runs in the quick tier
	Thorough int
	// PerProc: runs executed by one worker process (1 for everything that runs
	// under the scheduler: process-global registries make in-process batches
	// non-replayable).
	PerProc     int
	Level       string
	Rule        string
	Assumptions []string
	Real        []string
	Stub        []string
	// RunTimeout (seconds of real time) for one worker process.
	RunTimeout int
}

var commonReal = []string{
	"every line of hprose-golang under test, in its instrumented scratch copy (statement-level yields, TryLock-based lock acquisition, tape-ordered select, sorted map iteration)",
	"Go standard library incl. net/http client and server, fasthttp, fasthttp/websocket, concurrent-map, json-iterator",
}
var commonStub = []string{
	"OS sockets and the network between them (hsim/simnet: in-memory stream and datagram endpoints with controller-decided delivery)",
	"the clock (testing/synctest fake time)", "goroutine scheduling of instrumented code (verifsim)", "math/rand seed",
}

var props = map[string]*propCfg{
	"C10": {
		ID: "C10", Quick: 3000, Thorough: 120000, PerProc: 1, Level: "exploration", RunTimeout: 120,
		Rule: "one evaluation = one simulated run (one synctest bubble in its own OS process): a real client and real service over the simulated network, 1-8 calls, 1-2 faults (peer close/reset/silence at a tape-chosen byte offset of either direction, dial failure, Client.Abort or context cancellation started at a tape-chosen step, slow service functions), every scheduling decision from the tape; a run is non-trivial if it had more than one task switch inside instrumented code or at least one fault fired; distinct = distinct event-log hashes (the log contains every controller decision and every history event)",
		Assumptions: []string{
			"the source rewrites (R1-R9 of DESIGN.md) only add scheduling points or fix a choice the runtime makes at random",
			"preemption granularity is the Go statement; races inside one statement are out of reach of the serialising scheduler",
			"kernel socket behaviour is modelled by simnet: EOF/ECONNRESET/black hole, no TLS, no DNS",
		},
		Real: commonReal, Stub: commonStub,
	},
}
