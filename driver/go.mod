module verifdriver

go 1.25
