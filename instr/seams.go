package main

// R8/R9: seams, accessors and module-file edits applied to the scratch copy
// before the statement-level rewrite. Every edit is anchored; a missing anchor
// is build trouble (exit 2), never a violation.

import (
	"fmt"
	"os"
	"path/filepath"
	"regexp"
	"strings"
)

func die(f string, a ...interface{}) {
	fmt.Fprintf(os.Stderr, "BUILD-TROUBLE instr: "+f+"\n", a...)
	os.Exit(2)
}

func mustRead(p string) string {
	b, err := os.ReadFile(p)
	if err != nil {
		die("read %s: %v", p, err)
	}
	return string(b)
}

func mustWrite(p, s string) {
	if err := os.WriteFile(p, []byte(s), 0o644); err != nil {
		die("write %s: %v", p, err)
	}
}

func replaceOnce(path, old, new string) {
	s := mustRead(path)
	if strings.Count(s, old) < 1 {
		die("anchor %q not found in %s", old, path)
	}
	mustWrite(path, strings.Replace(s, old, new, 1))
}

const socketSeam = `package PKG

import (
	"context"
	"net"
)

// VerifDial replaces the real dialer when non-nil.
var VerifDial func(ctx context.Context) (net.Conn, error)

// VerifPending returns (#pooled connections, #pending entries).
// It never blocks: if a task holds one of the locks it returns (-1, -1).
func (trans *Transport) VerifPending() (conns, pending int) {
	if !trans.lock.TryRLock() {
		return -1, -1
	}
	defer trans.lock.RUnlock()
	for _, c := range trans.conns {
		conns++
		if !c.lock.TryLock() {
			return -1, -1
		}
		pending += len(c.results)
		c.lock.Unlock()
	}
	return
}

// VerifSetCounter presets the request counter of every pooled connection.
func (trans *Transport) VerifSetCounter(v int32) {
	if !trans.lock.TryRLock() {
		return
	}
	defer trans.lock.RUnlock()
	for _, c := range trans.conns {
		c.counter = v
	}
}
`

const udpSeamExtra = `
// VerifUDPConn is what Handler.Serve needs from *net.UDPConn.
type VerifUDPConn interface {
	net.Conn
	ReadFromUDP(b []byte) (int, *net.UDPAddr, error)
	WriteToUDP(b []byte, addr *net.UDPAddr) (int, error)
}
`

const wsSeam = `package websocket

import (
	"context"
	"net"
)

// VerifNetDial replaces the TCP dialer under the websocket handshake when non-nil.
var VerifNetDial func(ctx context.Context, network, addr string) (net.Conn, error)

// VerifPending returns (#pooled connections, #pending entries).
// It never blocks: if a task holds one of the locks it returns (-1, -1).
func (trans *Transport) VerifPending() (conns, pending int) {
	if !trans.lock.TryRLock() {
		return -1, -1
	}
	defer trans.lock.RUnlock()
	for _, c := range trans.conns {
		conns++
		if !c.lock.TryLock() {
			return -1, -1
		}
		pending += len(c.results)
		c.lock.Unlock()
	}
	return
}

// VerifSetCounter presets the request counter of every pooled connection.
func (trans *Transport) VerifSetCounter(v int32) {
	if !trans.lock.TryRLock() {
		return
	}
	defer trans.lock.RUnlock()
	for _, c := range trans.conns {
		c.counter = v
	}
}
`

func applySeams(root, simDir string) {
	j := func(p ...string) string { return filepath.Join(append([]string{root}, p...)...) }
	mustWrite(j("rpc/socket/verif_seam.go"), strings.Replace(socketSeam, "PKG", "socket", 1))
	mustWrite(j("rpc/udp/verif_seam.go"), strings.Replace(socketSeam, "PKG", "udp", 1)+udpSeamExtra)
	mustWrite(j("rpc/websocket/verif_seam.go"), wsSeam)
	for _, pkg := range []string{"socket", "udp"} {
		replaceOnce(j("rpc", pkg, "transport.go"),
			"func dial(ctx context.Context) (net.Conn, error) {",
			"func dial(ctx context.Context) (net.Conn, error) {\n\tif VerifDial != nil {\n\t\treturn VerifDial(ctx)\n\t}")
	}
	replaceOnce(j("rpc/websocket/transport.go"), "var d websocket.Dialer",
		"var d websocket.Dialer\n\tif VerifNetDial != nil {\n\t\td.NetDialContext = VerifNetDial\n\t}")
	// udp handler: concrete *net.UDPConn -> interface with the same methods
	hp := j("rpc/udp/handler.go")
	s := mustRead(hp)
	parts := strings.SplitN(s, "func RegisterHandler()", 2)
	if len(parts) != 2 || !strings.Contains(parts[0], "*net.UDPConn") {
		die("udp handler anchors not found")
	}
	mustWrite(hp, strings.ReplaceAll(parts[0], "*net.UDPConn", "VerifUDPConn")+"func RegisterHandler()"+parts[1])
	// go.mod
	gm := j("go.mod")
	m := mustRead(gm)
	re := regexp.MustCompile(`(?m)^go 1\.\d+(\.\d+)?$`)
	if !re.MatchString(m) {
		die("go directive not found in go.mod")
	}
	m = re.ReplaceAllString(m, "go 1.21")
	m += "\nrequire verifsim v0.0.0\n\nreplace verifsim => " + simDir + "\n"
	mustWrite(gm, m)
}
