// verif-instr: the source rewriter of the deterministic simulator (DESIGN.md 3.2, R1-R9).
// It rewrites a scratch copy of the repository in place; /repo itself is never touched.
package main

import (
	"bytes"
	"fmt"
	"go/ast"
	"go/format"
	"go/token"
	"go/types"
	"os"
	"path/filepath"
	"sort"
	"strings"

	"golang.org/x/tools/go/packages"
)

const simPath = "verifsim"

type ctx struct {
	fset  *token.FileSet
	info  *types.Info
	pkg   *types.Package
	sites *[]string
	tmp   int
	used  bool
	// labels needed on loops (for select rewrite with continue)
	rewritten map[ast.Stmt]bool
	root      string
	curFunc   string
}

var siteN int

func (c *ctx) site(pos token.Pos) *ast.BasicLit { return c.siteDesc(pos, c.curFunc) }

func (c *ctx) siteDesc(pos token.Pos, desc string) *ast.BasicLit {
	siteN++
	p := c.fset.Position(pos)
	rel, _ := filepath.Rel(c.root, p.Filename)
	*c.sites = append(*c.sites, fmt.Sprintf("%d\t%s:%d\t%s", siteN, rel, p.Line, desc))
	return &ast.BasicLit{Kind: token.INT, Value: fmt.Sprint(siteN)}
}

func (c *ctx) call(fn string, args ...ast.Expr) *ast.CallExpr {
	c.used = true
	return &ast.CallExpr{Fun: &ast.SelectorExpr{X: ast.NewIdent("verifsim"), Sel: ast.NewIdent(fn)}, Args: args}
}

func (c *ctx) newTmp(prefix string) *ast.Ident {
	c.tmp++
	return ast.NewIdent(fmt.Sprintf("_vs%s%d", prefix, c.tmp))
}

func (c *ctx) yield(pos token.Pos) ast.Stmt { return &ast.ExprStmt{X: c.call("Yield", c.site(pos))} }

func intLit(n int) *ast.BasicLit { return &ast.BasicLit{Kind: token.INT, Value: fmt.Sprint(n)} }

// methodOf reports the defining package path and receiver type name of a method call selector.
func (c *ctx) methodOf(sel *ast.SelectorExpr) (pkgPath, recv, name string, ok bool) {
	s := c.info.Selections[sel]
	if s == nil || s.Kind() != types.MethodVal {
		return
	}
	f, _ := s.Obj().(*types.Func)
	if f == nil || f.Pkg() == nil {
		return
	}
	sig := f.Type().(*types.Signature)
	rt := sig.Recv().Type()
	if p, isP := rt.(*types.Pointer); isP {
		rt = p.Elem()
	}
	if n, isN := rt.(*types.Named); isN {
		recv = n.Obj().Name()
	}
	return f.Pkg().Path(), recv, f.Name(), true
}

func (c *ctx) isPkgIdent(e ast.Expr) bool {
	id, ok := e.(*ast.Ident)
	if !ok {
		return false
	}
	_, isPkg := c.info.Uses[id].(*types.PkgName)
	return isPkg
}

func isConstLike(e ast.Expr) bool {
	switch x := e.(type) {
	case *ast.BasicLit:
		return true
	case *ast.Ident:
		return x.Name == "nil" || x.Name == "true" || x.Name == "false"
	}
	return false
}

func (c *ctx) refLike(e ast.Expr) bool {
	t := c.info.TypeOf(e)
	if t == nil {
		return false
	}
	switch t.Underlying().(type) {
	case *types.Pointer, *types.Interface, *types.Map, *types.Chan, *types.Signature, *types.Slice:
		return true
	}
	return false
}

// ---- statement rewriting

func (c *ctx) rewriteStmt(s ast.Stmt) []ast.Stmt {
	switch st := s.(type) {
	case *ast.ExprStmt:
		if ce, ok := st.X.(*ast.CallExpr); ok {
			if sel, ok := ce.Fun.(*ast.SelectorExpr); ok {
				if pkg, recv, name, ok := c.methodOf(sel); ok && pkg == "sync" && len(ce.Args) == 0 && (recv == "Mutex" || recv == "RWMutex") {
					switch name {
					case "Lock":
						return []ast.Stmt{&ast.ExprStmt{X: c.call("Acquire", &ast.SelectorExpr{X: sel.X, Sel: ast.NewIdent("TryLock")}, c.site(st.Pos()))}}
					case "RLock":
						return []ast.Stmt{&ast.ExprStmt{X: c.call("Acquire", &ast.SelectorExpr{X: sel.X, Sel: ast.NewIdent("TryRLock")}, c.site(st.Pos()))}}
					}
				}
				if c.isPkgIdent(sel.X) && sel.X.(*ast.Ident).Name == "runtime" && sel.Sel.Name == "Gosched" {
					return []ast.Stmt{&ast.ExprStmt{X: c.call("ForceYield", c.site(st.Pos()))}, st}
				}
			}
		}
	case *ast.SelectStmt:
		if r := c.rewriteSelect(st); r != nil {
			return r
		}
	case *ast.RangeStmt:
		if r := c.rewriteRange(st); r != nil {
			return r
		}
	case *ast.GoStmt:
		return c.rewriteGo(st)
	}
	return []ast.Stmt{s}
}

func (c *ctx) rewriteGo(st *ast.GoStmt) []ast.Stmt {
	var pre []ast.Stmt
	ce := st.Call
	hoist := func(e ast.Expr) ast.Expr {
		if isConstLike(e) {
			return e
		}
		if _, ok := e.(*ast.FuncLit); ok {
			return e
		}
		if tv, ok := c.info.Types[e]; ok && tv.Value != nil { // constant expression
			return e
		}
		id := c.newTmp("a")
		pre = append(pre, &ast.AssignStmt{Lhs: []ast.Expr{id}, Tok: token.DEFINE, Rhs: []ast.Expr{e}})
		return id
	}
	nc := &ast.CallExpr{Fun: ce.Fun, Ellipsis: ce.Ellipsis}
	if sel, ok := ce.Fun.(*ast.SelectorExpr); ok && !c.isPkgIdent(sel.X) {
		if _, _, _, isMethod := c.methodOf(sel); isMethod && c.refLike(sel.X) {
			nc.Fun = &ast.SelectorExpr{X: hoist(sel.X), Sel: sel.Sel}
		} else if !isMethod { // func-typed field: hoist the function value itself
			nc.Fun = hoist(ce.Fun)
		}
	}
	for _, a := range ce.Args {
		nc.Args = append(nc.Args, hoist(a))
	}
	body := &ast.BlockStmt{List: []ast.Stmt{&ast.ExprStmt{X: nc}}}
	g := &ast.ExprStmt{X: c.call("Go", c.siteDesc(st.Pos(), "go "+types.ExprString(ce.Fun)), &ast.FuncLit{Type: &ast.FuncType{Params: &ast.FieldList{}}, Body: body})}
	return []ast.Stmt{&ast.BlockStmt{List: append(pre, g)}}
}

func ordered(t types.Type) bool {
	b, ok := t.Underlying().(*types.Basic)
	return ok && b.Info()&(types.IsInteger|types.IsFloat|types.IsString) != 0
}

func (c *ctx) rewriteRange(st *ast.RangeStmt) []ast.Stmt {
	t := c.info.TypeOf(st.X)
	if t == nil {
		return nil
	}
	m, ok := t.Underlying().(*types.Map)
	if !ok {
		return nil
	}
	if !ordered(m.Key()) {
		fmt.Fprintln(os.Stderr, "instr: unordered map range left alone at", c.fset.Position(st.Pos()))
		return nil
	}
	mv := c.newTmp("m")
	kv := c.newTmp("k")
	pre := []ast.Stmt{&ast.AssignStmt{Lhs: []ast.Expr{mv}, Tok: token.DEFINE, Rhs: []ast.Expr{st.X}}}
	var bind []ast.Stmt
	isBlank := func(e ast.Expr) bool {
		if e == nil {
			return true
		}
		id, ok := e.(*ast.Ident)
		return ok && id.Name == "_"
	}
	okv := c.newTmp("ok")
	valExpr := ast.Expr(ast.NewIdent("_"))
	if !isBlank(st.Value) {
		valExpr = st.Value
	}
	// v, ok := m[k] ; if !ok { continue }   (entry deleted during iteration)
	tok := st.Tok
	if tok == token.ILLEGAL {
		tok = token.ASSIGN
	}
	if !isBlank(st.Key) {
		bind = append(bind, &ast.AssignStmt{Lhs: []ast.Expr{st.Key}, Tok: tok, Rhs: []ast.Expr{kv}})
	}
	if tok == token.DEFINE {
		if isBlank(st.Value) {
			bind = append(bind, &ast.AssignStmt{Lhs: []ast.Expr{ast.NewIdent("_"), okv}, Tok: token.DEFINE, Rhs: []ast.Expr{&ast.IndexExpr{X: mv, Index: kv}}})
		} else {
			bind = append(bind, &ast.AssignStmt{Lhs: []ast.Expr{valExpr, okv}, Tok: token.DEFINE, Rhs: []ast.Expr{&ast.IndexExpr{X: mv, Index: kv}}})
		}
	} else {
		bind = append(bind, &ast.DeclStmt{Decl: &ast.GenDecl{Tok: token.VAR, Specs: []ast.Spec{&ast.ValueSpec{Names: []*ast.Ident{okv}, Type: ast.NewIdent("bool")}}}})
		bind = append(bind, &ast.AssignStmt{Lhs: []ast.Expr{valExpr, okv}, Tok: token.ASSIGN, Rhs: []ast.Expr{&ast.IndexExpr{X: mv, Index: kv}}})
	}
	bind = append(bind, &ast.IfStmt{Cond: &ast.UnaryExpr{Op: token.NOT, X: okv}, Body: &ast.BlockStmt{List: []ast.Stmt{&ast.BranchStmt{Tok: token.CONTINUE}}}})
	body := &ast.BlockStmt{List: append(bind, st.Body.List...)}
	loop := &ast.RangeStmt{Key: ast.NewIdent("_"), Value: kv, Tok: token.DEFINE, X: c.call("SortedKeys", mv), Body: body}
	return []ast.Stmt{&ast.BlockStmt{List: append(pre, loop)}}
}

func hasBadBranch(n ast.Node) bool {
	bad := false
	var walk func(n ast.Node, inLoop bool)
	walk = func(n ast.Node, inLoop bool) {
		ast.Inspect(n, func(m ast.Node) bool {
			if bad || m == nil {
				return false
			}
			switch y := m.(type) {
			case *ast.FuncLit:
				return false
			case *ast.ForStmt:
				if ast.Node(y) != n {
					walk(y.Body, true)
					return false
				}
			case *ast.RangeStmt:
				if ast.Node(y) != n {
					walk(y.Body, true)
					return false
				}
			case *ast.LabeledStmt:
				bad = true
			case *ast.BranchStmt:
				if y.Tok == token.CONTINUE && y.Label == nil && !inLoop {
					bad = true
				}
				if y.Tok == token.GOTO {
					bad = true
				}
			}
			return true
		})
	}
	walk(n, false)
	return bad
}

func (c *ctx) rewriteSelect(st *ast.SelectStmt) []ast.Stmt {
	var cases []*ast.CommClause
	var def *ast.CommClause
	for _, cl := range st.Body.List {
		cc := cl.(*ast.CommClause)
		if cc.Comm == nil {
			def = cc
		} else {
			cases = append(cases, cc)
		}
	}
	n := len(cases)
	if n < 2 {
		return nil
	}
	for _, cl := range st.Body.List {
		for _, b := range cl.(*ast.CommClause).Body {
			if hasBadBranch(b) {
				fmt.Fprintln(os.Stderr, "instr: select with continue/goto/label in a clause body NOT rewritten at", c.fset.Position(st.Pos()))
				return nil
			}
		}
	}
	var pre []ast.Stmt
	hoist := func(e ast.Expr) ast.Expr {
		id := c.newTmp("c")
		pre = append(pre, &ast.AssignStmt{Lhs: []ast.Expr{id}, Tok: token.DEFINE, Rhs: []ast.Expr{e}})
		return id
	}
	comms := make([]ast.Stmt, n)
	for i, cc := range cases {
		switch cm := cc.Comm.(type) {
		case *ast.SendStmt:
			comms[i] = &ast.SendStmt{Chan: hoist(cm.Chan), Value: hoist(cm.Value)}
		case *ast.ExprStmt:
			u := cm.X.(*ast.UnaryExpr)
			comms[i] = &ast.ExprStmt{X: &ast.UnaryExpr{Op: token.ARROW, X: hoist(u.X)}}
		case *ast.AssignStmt:
			u := cm.Rhs[0].(*ast.UnaryExpr)
			comms[i] = &ast.AssignStmt{Lhs: cm.Lhs, Tok: cm.Tok, Rhs: []ast.Expr{&ast.UnaryExpr{Op: token.ARROW, X: hoist(u.X)}}}
		}
	}
	pv, iv, kv := c.newTmp("p"), c.newTmp("i"), c.newTmp("k")
	nlit := intLit(n)
	pre = append(pre, &ast.AssignStmt{Lhs: []ast.Expr{pv}, Tok: token.DEFINE, Rhs: []ast.Expr{c.call("SelStart", nlit, c.site(st.Pos()))}})
	sw := &ast.SwitchStmt{Tag: kv, Body: &ast.BlockStmt{}}
	for i, cc := range cases {
		inner := &ast.SelectStmt{Body: &ast.BlockStmt{List: []ast.Stmt{
			&ast.CommClause{Comm: comms[i], Body: cc.Body},
			&ast.CommClause{Comm: nil, Body: []ast.Stmt{&ast.BranchStmt{Tok: token.CONTINUE}}},
		}}}
		sw.Body.List = append(sw.Body.List, &ast.CaseClause{List: []ast.Expr{intLit(i)}, Body: []ast.Stmt{inner}})
	}
	full := &ast.SelectStmt{Body: &ast.BlockStmt{}}
	for i, cc := range cases {
		full.Body.List = append(full.Body.List, &ast.CommClause{Comm: comms[i], Body: cc.Body})
	}
	if def != nil {
		full.Body.List = append(full.Body.List, &ast.CommClause{Comm: nil, Body: def.Body})
	}
	sw.Body.List = append(sw.Body.List, &ast.CaseClause{List: []ast.Expr{nlit}, Body: []ast.Stmt{full}})
	loopBody := []ast.Stmt{
		&ast.AssignStmt{Lhs: []ast.Expr{kv}, Tok: token.DEFINE, Rhs: []ast.Expr{nlit}},
		&ast.IfStmt{Cond: &ast.BinaryExpr{X: &ast.BinaryExpr{X: pv, Op: token.GEQ, Y: intLit(0)}, Op: token.LAND, Y: &ast.BinaryExpr{X: iv, Op: token.LSS, Y: nlit}},
			Body: &ast.BlockStmt{List: []ast.Stmt{&ast.AssignStmt{Lhs: []ast.Expr{kv}, Tok: token.ASSIGN, Rhs: []ast.Expr{&ast.BinaryExpr{X: &ast.ParenExpr{X: &ast.BinaryExpr{X: pv, Op: token.ADD, Y: iv}}, Op: token.REM, Y: nlit}}}}}},
		sw,
		&ast.BranchStmt{Tok: token.BREAK},
	}
	loop := &ast.ForStmt{
		Init: &ast.AssignStmt{Lhs: []ast.Expr{iv}, Tok: token.DEFINE, Rhs: []ast.Expr{intLit(0)}},
		Cond: &ast.BinaryExpr{X: iv, Op: token.LEQ, Y: nlit},
		Post: &ast.IncDecStmt{X: iv, Tok: token.INC},
		Body: &ast.BlockStmt{List: loopBody},
	}
	blk := &ast.BlockStmt{List: append(pre, loop)}
	c.rewritten[blk] = true
	return []ast.Stmt{blk}
}

func (c *ctx) fixTermination(body *ast.BlockStmt, ft *ast.FuncType) {
	if ft.Results == nil || len(ft.Results.List) == 0 || len(body.List) == 0 {
		return
	}
	if c.rewritten[body.List[len(body.List)-1]] {
		body.List = append(body.List, &ast.ExprStmt{X: &ast.CallExpr{Fun: ast.NewIdent("panic"), Args: []ast.Expr{&ast.BasicLit{Kind: token.STRING, Value: `"verifsim: unreachable"`}}}})
	}
}

func (c *ctx) processList(list []ast.Stmt) []ast.Stmt {
	var out []ast.Stmt
	for _, s := range list {
		out = append(out, c.yield(s.Pos()))
		out = append(out, c.rewriteStmt(s)...)
	}
	return out
}

// callbacks that run while a library mutex is held
func (c *ctx) lockedCallback(sel *ast.SelectorExpr) bool {
	pkg, recv, name, ok := c.methodOf(sel)
	if !ok {
		return false
	}
	switch {
	case pkg == "sync" && recv == "Once" && name == "Do":
		return true
	case strings.HasSuffix(pkg, "orcaman/concurrent-map") && (name == "Upsert" || name == "RemoveCb" || name == "IterCb"):
		return true
	}
	return false
}

type visitor struct{ c *ctx }

func (v visitor) Visit(n ast.Node) ast.Visitor {
	c := v.c
	switch x := n.(type) {
	case *ast.FuncLit:
		ast.Walk(v, x.Body)
		c.fixTermination(x.Body, x.Type)
		return nil
	case *ast.SwitchStmt:
		if x.Init != nil {
			ast.Walk(v, x.Init)
		}
		if x.Tag != nil {
			ast.Walk(v, x.Tag)
		}
		for _, cl := range x.Body.List {
			ast.Walk(v, cl)
		}
		return nil
	case *ast.TypeSwitchStmt:
		if x.Init != nil {
			ast.Walk(v, x.Init)
		}
		ast.Walk(v, x.Assign)
		for _, cl := range x.Body.List {
			ast.Walk(v, cl)
		}
		return nil
	case *ast.SelectStmt:
		for _, cl := range x.Body.List {
			ast.Walk(v, cl)
		}
		return nil
	case *ast.BlockStmt:
		for _, s := range x.List {
			ast.Walk(v, s)
		}
		x.List = c.processList(x.List)
		return nil
	case *ast.CaseClause:
		for _, e := range x.List {
			ast.Walk(v, e)
		}
		for _, s := range x.Body {
			ast.Walk(v, s)
		}
		x.Body = c.processList(x.Body)
		return nil
	case *ast.CommClause:
		for _, s := range x.Body {
			ast.Walk(v, s)
		}
		x.Body = c.processList(x.Body)
		return nil
	case *ast.CallExpr:
		if sel, ok := x.Fun.(*ast.SelectorExpr); ok {
			if c.lockedCallback(sel) {
				for i, a := range x.Args {
					if fl, ok := a.(*ast.FuncLit); ok {
						ast.Walk(v, fl)
						fl.Body.List = append([]ast.Stmt{
							&ast.ExprStmt{X: c.call("NoPreemptEnter")},
							&ast.DeferStmt{Call: c.call("NoPreemptLeave")},
						}, fl.Body.List...)
						_ = i
					} else {
						ast.Walk(v, a)
					}
				}
				ast.Walk(v, sel.X)
				return nil
			}
			// X.Range(f) on sync.Map
			if pkg, recv, name, ok := c.methodOf(sel); ok && pkg == "sync" && recv == "Map" && name == "Range" && len(x.Args) == 1 {
				ast.Walk(v, x.Args[0])
				rangeFn := &ast.SelectorExpr{X: sel.X, Sel: ast.NewIdent("Range")}
				x.Fun = &ast.SelectorExpr{X: ast.NewIdent("verifsim"), Sel: ast.NewIdent("OrderedRange")}
				x.Args = []ast.Expr{rangeFn, x.Args[0]}
				c.used = true
				return nil
			}
		}
	}
	return v
}

// ioFiles are the io/ files that get yield points (registries, pools, struct
// coders, pointer decoders, converters); the hot encode/decode loops stay as
// they are. Their sites are inert unless a run enables them.
var ioFiles = []string{"pool.go", "formatter.go", "value_encoder.go", "value_decoder.go", "struct_encoder.go",
	"struct_decoder.go", "struct_manager.go", "ptr_decoder.go", "ptr_encoder.go", "converter.go",
	"encode_handler.go", "decode_handler.go", "interface_encoder.go", "interface_deocder.go"}

// usage: verif-instr <scratchRoot> <verifsimDir>
func main() {
	if len(os.Args) != 3 {
		die("usage: verif-instr <scratchRoot> <verifsimDir>")
	}
	root, _ := filepath.Abs(os.Args[1])
	simDir, _ := filepath.Abs(os.Args[2])
	applySeams(root, simDir)
	patterns := []string{"./rpc/...", "./io"}
	only := map[string]map[string]bool{}
	fs := map[string]bool{}
	for _, f := range ioFiles {
		fs[f] = true
	}
	only[filepath.Join(root, "io")] = fs
	cfg := &packages.Config{
		Mode: packages.NeedName | packages.NeedFiles | packages.NeedCompiledGoFiles | packages.NeedSyntax | packages.NeedTypes | packages.NeedTypesInfo | packages.NeedImports | packages.NeedDeps,
		Dir:  root,
		Env:  append(os.Environ(), "GOFLAGS=-mod=mod", "GOPROXY=off", "GOSUMDB=off"),
	}
	pkgs, err := packages.Load(cfg, patterns...)
	if err != nil {
		die("load: %v", err)
	}
	sort.Slice(pkgs, func(i, j int) bool { return pkgs[i].PkgPath < pkgs[j].PkgPath })
	var sites []string
	nfiles := 0
	for _, p := range pkgs {
		if len(p.Errors) > 0 {
			for _, e := range p.Errors {
				fmt.Fprintln(os.Stderr, "instr: type error:", e)
			}
			die("type errors in %s", p.PkgPath)
		}
		for i, f := range p.Syntax {
			path := p.CompiledGoFiles[i]
			if strings.HasSuffix(path, "_test.go") || !strings.HasPrefix(path, root) || strings.HasSuffix(path, "verif_seam.go") {
				continue
			}
			if fs, ok := only[filepath.Dir(path)]; ok && !fs[filepath.Base(path)] {
				continue
			}
			if hasDirective(f) {
				fmt.Fprintln(os.Stderr, "instr: file with compiler directives left alone:", path)
				continue
			}
			c := &ctx{fset: p.Fset, info: p.TypesInfo, pkg: p.Types, sites: &sites, rewritten: map[ast.Stmt]bool{}, root: root}
			v := visitor{c}
			for _, d := range f.Decls {
				switch dd := d.(type) {
				case *ast.FuncDecl:
					if dd.Body != nil {
						c.curFunc = dd.Name.Name
						if dd.Recv != nil && len(dd.Recv.List) == 1 {
							c.curFunc = types.ExprString(dd.Recv.List[0].Type) + "." + dd.Name.Name
						}
						ast.Walk(v, dd.Body)
						c.fixTermination(dd.Body, dd.Type)
					}
				case *ast.GenDecl:
					ast.Walk(v, dd)
				}
			}
			if !c.used {
				continue
			}
			imp := &ast.GenDecl{Tok: token.IMPORT, Specs: []ast.Spec{&ast.ImportSpec{Name: ast.NewIdent("verifsim"), Path: &ast.BasicLit{Kind: token.STRING, Value: `"` + simPath + `"`}}}}
			f.Decls = append([]ast.Decl{imp}, f.Decls...)
			f.Comments = nil
			var buf bytes.Buffer
			if err := format.Node(&buf, p.Fset, f); err != nil {
				die("print %s: %v", path, err)
			}
			mustWrite(path, buf.String())
			nfiles++
		}
	}
	mustWrite(filepath.Join(root, "verifsim_sites.txt"), strings.Join(sites, "\n")+"\n")
	fmt.Printf("instr: %d files, %d sites\n", nfiles, siteN)
}

func hasDirective(f *ast.File) bool {
	for _, cg := range f.Comments {
		for _, c := range cg.List {
			if strings.HasPrefix(c.Text, "//go:") && !strings.HasPrefix(c.Text, "//go:generate") {
				return true
			}
			if strings.HasPrefix(c.Text, "// +build") {
				return true
			}
		}
	}
	return false
}
