package hsim

// simnet: in-memory stream connections whose delivery is a controller
// decision. A Write only queues a segment; moving bytes to the reader
// (whole, fragmented, delayed), and closing / resetting / silencing the
// connection at a chosen byte offset, are options offered to the controller.

import (
	"context"
	"fmt"
	"io"
	"net"
	"sync"
	"syscall"
	"time"

	"verifsim"
)

type netAddr struct{ network, s string }

func (a netAddr) Network() string { return a.network }
func (a netAddr) String() string  { return a.s }

type timeoutErr struct{}

func (timeoutErr) Error() string   { return "sim: i/o timeout" }
func (timeoutErr) Timeout() bool   { return true }
func (timeoutErr) Temporary() bool { return true }

// link is one direction of a stream connection.
type link struct {
	mu        sync.Mutex
	name      string
	inflight  [][]byte // written, not yet delivered
	notBefore []time.Time
	buf       []byte // delivered, not yet read
	closed    bool   // graceful: reader sees EOF after buf
	reset     bool   // reader sees ECONNRESET at once
	wclosed   bool   // writes fail
	silent    bool   // black hole: written bytes vanish
	delivered int    // bytes moved to the reader so far
	written   int
	written0  int // value of written when the faults were armed
	rd        chan struct{}
	faults    []*linkFault
	werr      *linkFault // a write error when the writer has written Offset bytes (Kind "writeerr")
	// frozen: the reader's side has stopped taking bytes (a wedged peer): nothing is delivered any more, what is
	// written piles up, and once capacity bytes are queued a Write blocks until the connection ends
	frozen   bool
	capacity int
	wr       chan struct{} // wakes a blocked writer
	net      *Net
}

// linkFault fires when exactly Offset bytes have been delivered on the link.
type linkFault struct {
	Offset int
	Kind   string // close | reset | silence
	fired  bool
}

func (l *link) wake() {
	select {
	case l.rd <- struct{}{}:
	default:
	}
	if l.wr != nil {
		select {
		case l.wr <- struct{}{}:
		default:
		}
	}
}

func (l *link) queued() int {
	n := len(l.buf)
	for _, b := range l.inflight {
		n += len(b)
	}
	return n
}

// Conn is one end of a simulated stream connection.
type Conn struct {
	in, out    *link
	local, rem net.Addr
	dmu        sync.Mutex
	rdl        time.Time
	rdlCh      chan struct{}
	peer       *Conn
	ID         int
	Server     bool
}

func resetErr(op string) error {
	return &net.OpError{Op: op, Net: "tcp", Err: syscall.ECONNRESET}
}

func (c *Conn) Read(p []byte) (int, error) {
	for {
		c.in.mu.Lock()
		if c.in.reset {
			c.in.mu.Unlock()
			return 0, resetErr("read")
		}
		if len(c.in.buf) > 0 {
			n := copy(p, c.in.buf)
			c.in.buf = c.in.buf[n:]
			c.in.mu.Unlock()
			return n, nil
		}
		if c.in.closed {
			c.in.mu.Unlock()
			return 0, io.EOF
		}
		c.in.mu.Unlock()
		if len(p) == 0 {
			return 0, nil
		}
		c.dmu.Lock()
		dl := c.rdl
		if c.rdlCh == nil {
			c.rdlCh = make(chan struct{})
		}
		ch := c.rdlCh
		c.dmu.Unlock()
		var tc <-chan time.Time
		var tm *time.Timer
		if !dl.IsZero() {
			d := time.Until(dl)
			if d <= 0 {
				return 0, &net.OpError{Op: "read", Net: "tcp", Err: timeoutErr{}}
			}
			tm = time.NewTimer(d)
			tc = tm.C
		}
		select {
		case <-c.in.rd:
		case <-ch:
		case <-tc:
			return 0, &net.OpError{Op: "read", Net: "tcp", Err: timeoutErr{}}
		}
		if tm != nil {
			tm.Stop()
		}
	}
}

func (c *Conn) Write(p []byte) (int, error) {
	l := c.out
	l.mu.Lock()
	defer l.mu.Unlock()
	for l.capacity > 0 && l.queued() >= l.capacity && !l.reset && !l.wclosed && !l.closed && !l.silent {
		// the peer's buffer and ours are full: block like a socket write does, until something gives
		if s := verifsim.Current(); s != nil {
			s.Fault("write-blocked-on-full-buffer")
		}
		l.mu.Unlock()
		<-l.wr
		l.mu.Lock()
	}
	if l.reset {
		return 0, resetErr("write")
	}
	if l.wclosed || l.closed {
		return 0, &net.OpError{Op: "write", Net: "tcp", Err: io.ErrClosedPipe}
	}
	if wf := l.werr; wf != nil && !wf.fired && len(p) > 0 && l.written+len(p) > wf.Offset {
		// a write that fails half way, as with an expired write deadline: the first k bytes are on their
		// way, the rest is not, and the connection itself stays open
		k := wf.Offset - l.written
		if k < 0 {
			k = 0
		}
		wf.fired = true
		if s := verifsim.Current(); s != nil {
			s.Fault("conn-write-error")
			s.Logf("write error on %s after %d of %d bytes", l.name, k, len(p))
		}
		l.written += k
		if k > 0 && !l.silent {
			l.inflight = append(l.inflight, append([]byte(nil), p[:k]...))
			l.notBefore = append(l.notBefore, time.Time{})
		}
		return k, &net.OpError{Op: "write", Net: "tcp", Err: writeTimeoutErr{}}
	}
	l.written += len(p)
	if l.silent || len(p) == 0 {
		return len(p), nil
	}
	b := make([]byte, len(p))
	copy(b, p)
	l.inflight = append(l.inflight, b)
	var nb time.Time
	if l.net != nil && l.net.Latency != nil {
		nb = time.Now().Add(l.net.Latency())
	}
	l.notBefore = append(l.notBefore, nb)
	return len(p), nil
}

// Close closes this end: the peer reads EOF after what was already written has
// been delivered; local reads and writes fail.
func (c *Conn) Close() error {
	c.out.mu.Lock()
	already := c.out.wclosed
	c.out.wclosed = true
	// the EOF travels behind the in-flight data: deliver() turns wclosed into
	// closed when the queue is empty.
	if len(c.out.inflight) == 0 {
		c.out.closed = true
	}
	c.out.mu.Unlock()
	c.out.wake()
	c.in.mu.Lock()
	c.in.closed = true
	c.in.buf = nil
	c.in.inflight = nil
	c.in.notBefore = nil
	c.in.mu.Unlock()
	c.in.wake()
	if already {
		return nil
	}
	return nil
}

func (c *Conn) LocalAddr() net.Addr           { return c.local }
func (c *Conn) RemoteAddr() net.Addr          { return c.rem }
func (c *Conn) SetDeadline(t time.Time) error { return c.SetReadDeadline(t) }
func (c *Conn) SetReadDeadline(t time.Time) error {
	c.dmu.Lock()
	c.rdl = t
	if c.rdlCh != nil {
		close(c.rdlCh)
	}
	c.rdlCh = make(chan struct{})
	c.dmu.Unlock()
	return nil
}
func (c *Conn) SetWriteDeadline(t time.Time) error { return nil }

// Kill applies a fault to the whole connection (both directions), as seen from
// the network: kind close = both ends see EOF, reset = both see ECONNRESET,
// silence = nothing is delivered any more and nothing is reported.
func (c *Conn) Kill(kind string) {
	for _, l := range []*link{c.in, c.out} {
		l.mu.Lock()
		switch kind {
		case "close":
			l.closed = true
			l.wclosed = true
			l.inflight, l.notBefore = nil, nil
		case "reset":
			l.reset = true
			l.buf = nil
			l.inflight, l.notBefore = nil, nil
		case "silence":
			l.silent = true
			l.inflight, l.notBefore = nil, nil
		}
		l.mu.Unlock()
		l.wake()
	}
}

// freeze: the reader of link l stops reading; the writer can queue cap more bytes before it blocks.
func (l *link) freeze(cap int) {
	l.mu.Lock()
	l.frozen = true
	l.capacity = l.queued() + cap
	if l.wr == nil {
		l.wr = make(chan struct{}, 1)
	}
	l.mu.Unlock()
}

// Listener is a simulated net.Listener.
type Listener struct {
	addr    net.Addr
	mu      sync.Mutex
	queue   []*Conn
	closed  bool
	tempErr int // number of temporary accept errors still to inject
	ch      chan struct{}
	net     *Net
}

// writeTimeoutErr is what a write returns when its deadline expires: temporary, timeout.
type writeTimeoutErr struct{}

func (writeTimeoutErr) Error() string   { return "sim: i/o timeout (write)" }
func (writeTimeoutErr) Timeout() bool   { return true }
func (writeTimeoutErr) Temporary() bool { return true }

type tempAcceptErr struct{}

func (tempAcceptErr) Error() string   { return "sim: accept: too many open files" }
func (tempAcceptErr) Timeout() bool   { return false }
func (tempAcceptErr) Temporary() bool { return true }

func (l *Listener) Accept() (net.Conn, error) {
	for {
		l.mu.Lock()
		if l.closed {
			l.mu.Unlock()
			return nil, &net.OpError{Op: "accept", Net: "tcp", Err: net.ErrClosed}
		}
		if len(l.queue) > 0 {
			if l.tempErr > 0 {
				l.tempErr--
				l.mu.Unlock()
				if s := verifsim.Current(); s != nil {
					s.Fault("accept-temp-error")
				}
				return nil, &net.OpError{Op: "accept", Net: "tcp", Err: tempAcceptErr{}}
			}
			c := l.queue[0]
			l.queue = l.queue[1:]
			l.mu.Unlock()
			return c, nil
		}
		l.mu.Unlock()
		<-l.ch
	}
}

func (l *Listener) Close() error {
	l.mu.Lock()
	l.closed = true
	l.mu.Unlock()
	select {
	case l.ch <- struct{}{}:
	default:
	}
	return nil
}
func (l *Listener) Addr() net.Addr { return l.addr }

// Net is the simulated network of one run.
type Net struct {
	mu        sync.Mutex
	links     []*link
	Conns     []*Conn // client ends, in creation order
	listeners map[string]*Listener
	muted     map[string]bool // listener addresses whose servers never answer
	// Latency, when set, gives each written segment a not-before time.
	Latency func() time.Duration
	// FragChoices: byte counts offered when delivering (0 = whole segment).
	FragChoices []int
	// DialFail: number of upcoming dials that fail.
	DialFail int
	// PlanFaults[k] = faults for the k-th connection created (0-based), by direction.
	PlanFaults map[int]map[string][]*linkFault
	sim        *verifsim.Sim
	// OnFault is called (controller context) when a planned fault fires.
	OnFault func(connID int, dir, kind string)
}

var defaultFrags = []int{0, 0, 0, 1, 2, 3, 4, 5, 7, 8, 11, 12, 13, 16, 31}

func NewNet(sim *verifsim.Sim) *Net {
	n := &Net{listeners: map[string]*Listener{}, sim: sim, FragChoices: defaultFrags, PlanFaults: map[int]map[string][]*linkFault{}}
	sim.AddSource(n)
	return n
}

// SilenceListener: every connection to that address reaches a server whose answers vanish.
func (n *Net) SilenceListener(addr string) {
	n.mu.Lock()
	if n.muted == nil {
		n.muted = map[string]bool{}
	}
	n.muted[addr] = true
	n.mu.Unlock()
}

// AcceptTempErrors makes every listener fail its next k accepts with a temporary error (EMFILE-like) before
// handing out the waiting connection.
func (n *Net) AcceptTempErrors(k int) {
	n.mu.Lock()
	ls := make([]*Listener, 0, len(n.listeners))
	for _, l := range n.listeners {
		ls = append(ls, l)
	}
	n.mu.Unlock()
	for _, l := range ls {
		l.mu.Lock()
		l.tempErr = k
		l.mu.Unlock()
	}
}

func (n *Net) Listen(addr string) *Listener {
	l := &Listener{addr: tcpAddr(addr), ch: make(chan struct{}, 1), net: n}
	n.mu.Lock()
	n.listeners[addr] = l
	n.mu.Unlock()
	return l
}

func tcpAddr(hostport string) net.Addr {
	a, err := net.ResolveTCPAddr("tcp", hostport)
	if err != nil {
		return netAddr{"tcp", hostport}
	}
	return a
}

// AddFault plans a fault on the k-th connection to be created.
func (n *Net) AddFault(k int, dir string, offset int, kind string) {
	if n.PlanFaults[k] == nil {
		n.PlanFaults[k] = map[string][]*linkFault{}
	}
	if kind == "writeerr" {
		// offsets of write errors count bytes written by that direction's writer
		n.PlanFaults[k]["w:"+dir] = []*linkFault{{Offset: offset, Kind: kind}}
		return
	}
	n.PlanFaults[k][dir] = append(n.PlanFaults[k][dir], &linkFault{Offset: offset, Kind: kind})
}

// Pair creates a connected pair without a listener.
func (n *Net) Pair(clientAddr, serverAddr string) (*Conn, *Conn) {
	n.mu.Lock()
	id := len(n.Conns)
	c2s := &link{name: fmt.Sprintf("c%d:c2s", id), rd: make(chan struct{}, 1), net: n}
	s2c := &link{name: fmt.Sprintf("c%d:s2c", id), rd: make(chan struct{}, 1), net: n}
	if pf := n.PlanFaults[id]; pf != nil {
		c2s.faults = pf["c2s"]
		s2c.faults = pf["s2c"]
		if w := pf["w:c2s"]; len(w) > 0 {
			c2s.werr = &linkFault{Offset: w[0].Offset, Kind: "writeerr"}
		}
		if w := pf["w:s2c"]; len(w) > 0 {
			s2c.werr = &linkFault{Offset: w[0].Offset, Kind: "writeerr"}
		}
	}
	n.links = append(n.links, c2s, s2c)
	ca, sa := tcpAddr(clientAddr), tcpAddr(serverAddr)
	c := &Conn{in: s2c, out: c2s, local: ca, rem: sa, ID: id}
	s := &Conn{in: c2s, out: s2c, local: sa, rem: ca, ID: id, Server: true}
	c.peer, s.peer = s, c
	n.Conns = append(n.Conns, c)
	n.mu.Unlock()
	return c, s
}

// Dial connects to a listener.
func (n *Net) Dial(ctx context.Context, addr string) (net.Conn, error) {
	n.mu.Lock()
	if n.DialFail > 0 {
		n.DialFail--
		n.mu.Unlock()
		n.sim.Fault("dial-failure")
		return nil, &net.OpError{Op: "dial", Net: "tcp", Err: syscall.ECONNREFUSED}
	}
	l := n.listeners[addr]
	id := len(n.Conns)
	n.mu.Unlock()
	if l == nil {
		return nil, &net.OpError{Op: "dial", Net: "tcp", Err: syscall.ECONNREFUSED}
	}
	l.mu.Lock()
	closed := l.closed
	l.mu.Unlock()
	if closed {
		return nil, &net.OpError{Op: "dial", Net: "tcp", Err: syscall.ECONNREFUSED}
	}
	c, s := n.Pair(fmt.Sprintf("10.0.1.%d:%d", 1+id%250, 40000+id), addr)
	n.mu.Lock()
	mute := n.muted[addr]
	n.mu.Unlock()
	if mute {
		// a server that takes requests and never answers: what it writes vanishes
		c.in.mu.Lock()
		c.in.silent = true
		c.in.mu.Unlock()
		n.sim.Fault("conn-to-silent-server")
	}
	l.mu.Lock()
	l.queue = append(l.queue, s)
	l.mu.Unlock()
	select {
	case l.ch <- struct{}{}:
	default:
	}
	return c, nil
}

// fire applies due faults of a link; returns true if a fault ended the link.
func (n *Net) fire(l *link, c *Conn, dir string) bool {
	for _, f := range l.faults {
		if !f.fired && l.delivered >= f.Offset {
			f.fired = true
			n.sim.Fault("conn-" + f.Kind)
			n.sim.Logf("fault %s %s at %d", f.Kind, l.name, l.delivered)
			if f.Kind == "freeze" {
				l.freeze(16)
			} else {
				c.Kill(f.Kind)
			}
			if n.OnFault != nil {
				n.OnFault(c.ID, dir, f.Kind)
			}
			return true
		}
	}
	return false
}

func (n *Net) connOf(l *link) (*Conn, string) {
	for _, c := range n.Conns {
		if c.out == l {
			return c, "c2s"
		}
		if c.in == l {
			return c, "s2c"
		}
	}
	return nil, ""
}

// Options implements verifsim.Source.
func (n *Net) Options(now time.Time) []verifsim.Option {
	n.mu.Lock()
	links := append([]*link(nil), n.links...)
	n.mu.Unlock()
	var out []verifsim.Option
	for _, l := range links {
		l := l
		l.mu.Lock()
		ready := len(l.inflight) > 0 && !l.closed && !l.reset && !l.frozen && !l.notBefore[0].After(now)
		eofPending := len(l.inflight) == 0 && l.wclosed && !l.closed
		pendingFault := false
		for _, f := range l.faults {
			// a fault at the current offset fires once the link carries new traffic
			if !f.fired && l.delivered >= f.Offset && l.written > l.written0 {
				pendingFault = true
			}
		}
		l.mu.Unlock()
		if pendingFault {
			out = append(out, verifsim.Option{Label: "fault " + l.name, Do: func() {
				c, dir := n.connOf(l)
				n.fire(l, c, dir)
			}})
			continue
		}
		if eofPending {
			out = append(out, verifsim.Option{Label: "eof " + l.name, Do: func() {
				l.mu.Lock()
				l.closed = true
				l.mu.Unlock()
				l.wake()
			}})
			continue
		}
		if ready {
			out = append(out, verifsim.Option{Label: "deliver " + l.name, Do: func() { n.deliver(l) }})
		}
	}
	return out
}

// NextDue implements verifsim.Source.
func (n *Net) NextDue(now time.Time) (time.Time, bool) {
	n.mu.Lock()
	links := append([]*link(nil), n.links...)
	n.mu.Unlock()
	var best time.Time
	ok := false
	for _, l := range links {
		l.mu.Lock()
		if len(l.inflight) > 0 && !l.closed && !l.reset && l.notBefore[0].After(now) {
			if !ok || l.notBefore[0].Before(best) {
				best, ok = l.notBefore[0], true
			}
		}
		l.mu.Unlock()
	}
	return best, ok
}

func (n *Net) deliver(l *link) {
	k := n.FragChoices[n.sim.Choose(len(n.FragChoices))]
	l.mu.Lock()
	if len(l.inflight) == 0 {
		l.mu.Unlock()
		return
	}
	seg := l.inflight[0]
	if k <= 0 || k >= len(seg) {
		k = len(seg)
	} else {
		n.sim.Fault("fragment")
	}
	// never deliver past a pending fault offset
	for _, f := range l.faults {
		if !f.fired && f.Offset > l.delivered && l.delivered+k > f.Offset {
			k = f.Offset - l.delivered
		}
	}
	if k == len(seg) {
		l.inflight = l.inflight[1:]
		l.notBefore = l.notBefore[1:]
	} else {
		l.inflight[0] = seg[k:]
	}
	l.buf = append(l.buf, seg[:k]...)
	l.delivered += k
	if len(l.inflight) == 0 && l.wclosed {
		l.closed = true
	}
	l.mu.Unlock()
	n.sim.Logf("delivered %s %d", l.name, k)
	l.wake()
}

// InFlight reports whether any link still has undelivered data.
func (n *Net) InFlight() bool {
	n.mu.Lock()
	defer n.mu.Unlock()
	for _, l := range n.links {
		l.mu.Lock()
		x := len(l.inflight) > 0 && !l.closed && !l.reset && !l.frozen
		l.mu.Unlock()
		if x {
			return true
		}
	}
	return false
}

// CloseAll closes every listener and connection (end of scenario).
func (n *Net) CloseAll() {
	n.mu.Lock()
	ls := n.listeners
	cs := append([]*Conn(nil), n.Conns...)
	n.mu.Unlock()
	for _, l := range ls {
		l.Close()
	}
	for _, c := range cs {
		c.Kill("close")
	}
}

// ArmExisting applies the planned faults to connections that already exist,
// with offsets counted from the bytes delivered so far.
func (n *Net) ArmExisting() {
	n.mu.Lock()
	defer n.mu.Unlock()
	for _, c := range n.Conns {
		pf := n.PlanFaults[c.ID]
		if pf == nil {
			continue
		}
		for dir, l := range map[string]*link{"c2s": c.out, "s2c": c.in} {
			l.mu.Lock()
			l.faults = nil
			for _, f := range pf[dir] {
				l.faults = append(l.faults, &linkFault{Offset: f.Offset + l.delivered, Kind: f.Kind})
			}
			l.written0 = l.written
			l.werr = nil
			if w := pf["w:"+dir]; len(w) > 0 {
				l.werr = &linkFault{Offset: w[0].Offset + l.written, Kind: "writeerr"}
			}
			l.mu.Unlock()
		}
	}
}

// HealSilent resets every black-holed connection, as a kernel eventually would.
func (n *Net) HealSilent() {
	n.mu.Lock()
	cs := append([]*Conn(nil), n.Conns...)
	n.mu.Unlock()
	for _, c := range cs {
		c.in.mu.Lock()
		silent := c.in.silent || c.out.silent || c.in.frozen || c.out.frozen
		c.in.mu.Unlock()
		if silent {
			c.Kill("reset")
			n.sim.Logf("heal: reset silent conn %d", c.ID)
		}
	}
}

// Disarm drops every planned fault that has not fired yet.
func (n *Net) Disarm() {
	n.mu.Lock()
	defer n.mu.Unlock()
	n.PlanFaults = map[int]map[string][]*linkFault{}
	n.DialFail = 0
	for _, l := range n.links {
		l.mu.Lock()
		for _, f := range l.faults {
			f.fired = true
		}
		if l.werr != nil {
			l.werr.fired = true
		}
		l.mu.Unlock()
	}
}
