package hsim

// C15 Plugins run as an ordered onion around the core handler.

import (
	"context"
	"fmt"
	"strings"
	"time"

	"github.com/anishathalye/porcupine"
	"github.com/hprose/hprose-golang/v3/rpc/core"
	"verifsim"
)

func init() { scenarios["C15"] = scenC15 }

// ---- per-call trace

type c15trace struct {
	id      int
	marks   []string
	short   string // tag of the handler that short-circuits this call ("" = none)
	seqs    []uint64
	sim     *verifsim.Sim
	gateTag string // handler inside which this call parks until released
	gate    chan struct{}
	parked  bool
	outcome byte // what the built-in handler's function does: 0 = returns, 'E' = returns an error, 'P' = panics
}

type c15key struct{}

var c15cur *c15trace // service side (sequential histories only)

func c15of(ctx context.Context) *c15trace {
	if t, ok := ctx.Value(c15key{}).(*c15trace); ok {
		return t
	}
	return c15cur
}

func (t *c15trace) mark(m string) {
	if t == nil {
		return
	}
	t.marks = append(t.marks, m)
	t.seqs = append(t.seqs, t.sim.Event("mark", t.id, m))
}

func c15inv(tag string, ctx context.Context, name string, args []interface{}, next core.NextInvokeHandler) ([]interface{}, error) {
	t := c15of(ctx)
	t.mark("+" + tag)
	verifsim.Yield(-20)
	if t != nil && t.gateTag == tag && t.gate != nil {
		t.parked = true
		<-t.gate
		verifsim.ForceYield(-21)
	}
	if t != nil && t.short == tag {
		t.mark("-" + tag)
		return []interface{}{"short:" + tag}, nil
	}
	res, err := func() ([]interface{}, error) {
		defer func() {
			if p := recover(); p != nil {
				t.mark("^" + tag) // left by a panic passing through, not by a return
				panic(p)
			}
		}()
		return next(ctx, name, args)
	}()
	verifsim.Yield(-22)
	t.mark("-" + tag)
	if err == nil && len(res) == 1 {
		res = []interface{}{fmt.Sprint(res[0]) + "<" + tag}
	}
	return res, err
}

func c15io(tag string, ctx context.Context, request []byte, next core.NextIOHandler) ([]byte, error) {
	t := c15of(ctx)
	mt := tag + "'" // the IO side of a handler is marked with a prime
	t.mark("+" + mt)
	verifsim.Yield(-23)
	if t != nil && t.short == mt {
		t.mark("-" + mt)
		return []byte(`Rs5"SHORT"z`), nil
	}
	res, err := func() ([]byte, error) {
		defer func() {
			if p := recover(); p != nil {
				t.mark("^" + mt)
				panic(p)
			}
		}()
		return next(ctx, request)
	}()
	verifsim.Yield(-24)
	t.mark("-" + mt)
	return res, err
}

// handlers with pairwise distinct code pointers
func c15invA(ctx context.Context, n string, a []interface{}, next core.NextInvokeHandler) ([]interface{}, error) {
	return c15inv("iA", ctx, n, a, next)
}
func c15invB(ctx context.Context, n string, a []interface{}, next core.NextInvokeHandler) ([]interface{}, error) {
	return c15inv("iB", ctx, n, a, next)
}
func c15invC(ctx context.Context, n string, a []interface{}, next core.NextInvokeHandler) ([]interface{}, error) {
	return c15inv("iC", ctx, n, a, next)
}
func c15ioA(ctx context.Context, r []byte, next core.NextIOHandler) ([]byte, error) {
	return c15io("oA", ctx, r, next)
}
func c15ioB(ctx context.Context, r []byte, next core.NextIOHandler) ([]byte, error) {
	return c15io("oB", ctx, r, next)
}

type c15plugX struct{ tag string } // two-sided plugin
func (p *c15plugX) IOHandler(ctx context.Context, r []byte, next core.NextIOHandler) ([]byte, error) {
	return c15io(p.tag, ctx, r, next)
}
func (p *c15plugX) InvokeHandler(ctx context.Context, n string, a []interface{}, next core.NextInvokeHandler) ([]interface{}, error) {
	return c15inv(p.tag, ctx, n, a, next)
}

type c15plugY struct{ tag string } // another two-sided plugin type
func (p *c15plugY) IOHandler(ctx context.Context, r []byte, next core.NextIOHandler) ([]byte, error) {
	return c15io(p.tag, ctx, r, next)
}
func (p *c15plugY) InvokeHandler(ctx context.Context, n string, a []interface{}, next core.NextInvokeHandler) ([]interface{}, error) {
	return c15inv(p.tag, ctx, n, a, next)
}

type c15invPlug struct{ tag string } // invoke-only plugin object
func (p *c15invPlug) Handler(ctx context.Context, n string, a []interface{}, next core.NextInvokeHandler) ([]interface{}, error) {
	return c15inv(p.tag, ctx, n, a, next)
}

type c15ioPlug struct{ tag string } // IO-only plugin object
func (p *c15ioPlug) Handler(ctx context.Context, r []byte, next core.NextIOHandler) ([]byte, error) {
	return c15io(p.tag, ctx, r, next)
}

//go:noinline
func c15mkInv(tag string) core.InvokeHandler { // closures of one (non-inlined) literal share a code pointer
	return func(ctx context.Context, n string, a []interface{}, next core.NextInvokeHandler) ([]interface{}, error) {
		return c15inv(tag, ctx, n, a, next)
	}
}

// c15handler is one pool entry: the value given to Use/Unuse and its model identity.
type c15handler struct {
	tag   string
	value core.PluginHandler
	inv   bool   // contributes an invoke handler
	io    bool   // contributes an IO handler
	group string // handlers sharing a code pointer (alias model only)
}

func c15pool(alias bool) []*c15handler {
	// pool A: handlers whose code pointers are pairwise distinct (plain functions,
	// and at most one object per plugin interface category)
	p := []*c15handler{
		{tag: "iA", value: core.InvokeHandler(c15invA), inv: true, group: "iA"},
		{tag: "iB", value: core.InvokeHandler(c15invB), inv: true, group: "iB"},
		{tag: "iC", value: core.InvokeHandler(c15invC), inv: true, group: "iC"},
		{tag: "oA", value: core.IOHandler(c15ioA), io: true, group: "oA"},
		{tag: "oB", value: core.IOHandler(c15ioB), io: true, group: "oB"},
		{tag: "pX", value: &c15plugX{"pX"}, inv: true, io: true, group: "plugin"},
		{tag: "qI", value: &c15invPlug{"qI"}, inv: true, group: "invokePlugin"},
		{tag: "qO", value: &c15ioPlug{"qO"}, io: true, group: "ioPlugin"},
	}
	if alias {
		// pool B: distinct handlers that share a code pointer: a second plugin type,
		// a second instance of a plugin type, a second invoke-plugin object, two
		// closures of one literal. (Method values taken through the plugin
		// interfaces share one wrapper per interface.)
		p = append(p,
			&c15handler{tag: "pY", value: &c15plugY{"pY"}, inv: true, io: true, group: "plugin"},
			&c15handler{tag: "pX2", value: &c15plugX{"pX2"}, inv: true, io: true, group: "plugin"},
			&c15handler{tag: "qI2", value: &c15invPlug{"qI2"}, inv: true, group: "invokePlugin"},
			&c15handler{tag: "cK1", value: c15mkInv("cK1"), inv: true, group: "cK"},
			&c15handler{tag: "cK2", value: c15mkInv("cK2"), inv: true, group: "cK"},
		)
	}
	return p
}

// c15model is the list model: Use appends, Unuse removes every equal element.
type c15model struct {
	list []*c15handler
}

func (m *c15model) use(hs []*c15handler) { m.list = append(m.list, hs...) }
func (m *c15model) unuse(hs []*c15handler, alias bool) {
	var out []*c15handler
	for _, h := range m.list {
		rm := false
		for _, x := range hs {
			if x == h || (alias && x.group == h.group) {
				rm = true
			}
		}
		if !rm {
			out = append(out, h)
		}
	}
	m.list = out
}

// chain renders the marks a call must produce for the given lists.
func c15chain(outer, inner []string, short string) []string {
	return c15chainP(outer, inner, short, false)
}

// c15chainP: with panicInner the built-in handler panics and the panic is turned into an error between the inner
// and the outer layer (the service does that between its invoke and its IO handlers): the inner handlers are left by
// the panic ("^"), the outer ones by a return ("-").
func c15chainP(outer, inner []string, short string, panicInner bool) []string {
	var marks []string
	var open []string
	cut := false
	for _, lists := range [][]string{outer, inner} {
		if cut {
			break
		}
		for _, h := range lists {
			marks = append(marks, "+"+h)
			if h == short {
				marks = append(marks, "-"+h)
				cut = true
				break
			}
			open = append(open, h)
		}
	}
	if !cut {
		marks = append(marks, "core")
	}
	for i := len(open) - 1; i >= 0; i-- {
		if panicInner && !cut && i >= len(outer) {
			marks = append(marks, "^"+open[i])
		} else {
			marks = append(marks, "-"+open[i])
		}
	}
	return marks
}

func (m *c15model) lists() (invL, ioL []string) {
	for _, h := range m.list {
		if h.inv {
			invL = append(invL, h.tag)
		}
		if h.io {
			ioL = append(ioL, h.tag+"'")
		}
	}
	return
}

func scenC15(r *Run) {
	mode := []string{"seq-client", "seq-service", "seq-client-alias", "concurrent", "concurrent", "seq-service-alias"}[r.Index%6]
	if v, ok := r.Opt["mode"]; ok {
		mode = v
	}
	r.Param("mode", mode)
	RegisterKind("mock")
	sim := r.StartSim(verifsim.Config{IdleCap: time.Hour, StepCap: 100000})
	service := core.NewService()
	coreRuns := map[int]int{}
	service.AddFunction(func(nonce int) (string, error) {
		coreRuns[nonce]++
		if c15cur != nil && c15cur.id == nonce {
			c15cur.mark("core")
			switch c15cur.outcome {
			case 'E':
				return "", fmt.Errorf("core error %d", nonce)
			case 'P':
				panic(fmt.Sprintf("core panic %d", nonce))
			}
		}
		return fmt.Sprintf("v%d", nonce), nil
	}, "f")
	fx := NewFixture(r, "mock", service)
	client := fx.NewClient()
	client.Timeout = time.Hour
	if mode == "concurrent" {
		c15Concurrent(r, sim, client, coreRuns)
		return
	}
	alias := strings.HasSuffix(mode, "-alias")
	onService := strings.HasPrefix(mode, "seq-service")
	pool := c15pool(alias)
	exact, aliasM := &c15model{}, &c15model{}
	nops := 1 + r.Plan(25)
	done := false
	var prevHs []*c15handler
	var prevVals []core.PluginHandler
	var prevTags []string
	sim.Task("history", func() {
		defer func() { done = true }()
		nonce := 0
		for i := 0; i < nops; i++ {
			op := r.PlanOf("use", "call", "unuse", "call", "use", "empty-request")
			switch op {
			case "use", "unuse":
				k := 1 + r.Plan(3)
				var hs []*c15handler
				var vals []core.PluginHandler
				var tags []string
				if prevVals != nil && r.Plan(4) == 0 {
					// the caller hands over the very slice it passed to the previous Use/Unuse (a configuration
					// list kept around): the list still means the handlers it was built from
					hs, vals, tags = prevHs, prevVals, prevTags
				} else {
					for j := 0; j < k; j++ {
						h := pool[r.Plan(len(pool))]
						hs = append(hs, h)
						vals = append(vals, h.value)
						tags = append(tags, h.tag)
					}
				}
				prevHs, prevVals, prevTags = hs, vals, tags
				sim.Event(op, strings.Join(tags, ","))
				if op == "use" {
					if onService {
						service.Use(vals...)
					} else {
						client.Use(vals...)
					}
					exact.use(hs)
					aliasM.use(hs)
				} else {
					if onService {
						service.Unuse(vals...)
					} else {
						client.Unuse(vals...)
					}
					exact.unuse(hs, false)
					aliasM.unuse(hs, true)
				}
			case "empty-request":
				// a request with an empty body (it asks for the list of functions) is a call at the IO level like any
				// other: it passes every IO handler, of the client and of the service, there and back
				nonce++
				t := &c15trace{id: nonce, sim: sim}
				_, ioL := exact.lists()
				c15cur = t
				ctx := clientCtx(client)
				if !onService {
					ctx = context.WithValue(ctx, c15key{}, t)
				}
				sim.Event("empty-request", nonce)
				_, err := client.Request(ctx, nil)
				c15cur = nil
				// (on the service the request then is the call of the built-in function list: it goes on through the
				// service's invoke handlers; on the client Request starts below the invoke handlers)
				chainOf := func(inv, io []string) []string {
					var w []string
					if !onService {
						inv = nil
					}
					for _, m := range c15chainP(io, inv, "", false) {
						if m != "core" {
							w = append(w, m)
						}
					}
					return w
				}
				invL0, _ := exact.lists()
				want := chainOf(invL0, ioL)
				if strings.Join(t.marks, " ") != strings.Join(want, " ") {
					ai, ao := aliasM.lists()
					wa := chainOf(ai, ao)
					cls := "C15:chain-mismatch:empty-request:" + mode
					if strings.Join(t.marks, " ") == strings.Join(wa, " ") {
						cls = "C15:chain-mismatch:unuse-removed-aliased-handler:" + mode
					}
					r.Fail(cls, "request %d with an empty body: installed IO handlers %v\n expected %v\n observed %v (err %v)", nonce, ioL, want, t.marks, err)
					return
				}
			case "call":
				nonce++
				t := &c15trace{id: nonce, sim: sim}
				invL, ioL := exact.lists()
				all := append(append([]string{}, invL...), ioL...)
				if len(all) > 0 && r.PlanBool(4) {
					t.short = all[r.Plan(len(all))]
				}
				// errors and panics of the function travel back through every handler like results do
				t.outcome = []byte{0, 0, 0, 'E', 'P'}[r.Plan(5)]
				if !onService && r.Plan(6) == 0 {
					t.outcome = 'C' // the caller's context is already cancelled: the call still passes through every handler
				}
				c15cur = t
				ctx := context.Background()
				if !onService {
					ctx = context.WithValue(ctx, c15key{}, t)
				}
				if t.outcome == 'C' {
					var cancel context.CancelFunc
					ctx, cancel = context.WithCancel(ctx)
					cancel()
				}
				sim.Event("call", nonce, "short="+t.short, "outcome="+string(append([]byte{'-'}, t.outcome)))
				res, err := client.InvokeContext(ctx, "f", []interface{}{nonce})
				c15cur = nil
				if t.outcome == 'C' {
					// whether the transport still carries a cancelled call is its business: with or without the
					// function's mark, every installed handler was passed, in order, there and back
					// (the function's own mark may also come late: the transport lets go of a cancelled call while
					// the service is still at it)
					var g, o []string
					for _, m := range c15chainP(invL, ioL, t.short, false) {
						if m != "core" {
							g = append(g, m)
						}
					}
					for _, m := range t.marks {
						if m != "core" {
							o = append(o, m)
						}
					}
					if strings.Join(o, " ") != strings.Join(g, " ") {
						ai, ao := aliasM.lists()
						var ga []string
						for _, m := range c15chainP(ai, ao, t.short, false) {
							if m != "core" {
								ga = append(ga, m)
							}
						}
						if strings.Join(o, " ") == strings.Join(ga, " ") {
							r.Fail("C15:chain-mismatch:unuse-removed-aliased-handler:"+mode, "call %d (cancelled context): installed invoke handlers %v, IO handlers %v\n observed %v", nonce, invL, ioL, t.marks)
							return
						}
						r.Fail("C15:chain-mismatch:cancelled-call:"+mode, "call %d with an already cancelled context: installed invoke handlers %v, IO handlers %v, short-circuit at %q\n expected (function's mark aside) %v\n observed %v (err %v)", nonce, invL, ioL, t.short, g, t.marks, err)
						return
					}
					continue
				} else if t.outcome != 0 && t.short == "" && (err == nil || !strings.Contains(err.Error(), fmt.Sprintf("core %s %d", map[byte]string{'E': "error", 'P': "panic"}[t.outcome], nonce))) {
					r.Fail("C15:error-path:"+mode, "call %d: the function %s, the caller got result %v err %v", nonce, map[byte]string{'E': "returned an error", 'P': "panicked"}[t.outcome], res, err)
					return
				}
				// client: invoke handlers are the outer layers; service: IO handlers are
				outer, inner := invL, ioL
				if onService {
					outer, inner = ioL, invL
				}
				want := c15chainP(outer, inner, t.short, onService && t.outcome == 'P')
				got := t.marks
				if strings.Join(got, " ") != strings.Join(want, " ") {
					ai, ao := aliasM.lists()
					cls := "C15:chain-mismatch:" + mode
					if onService {
						ai, ao = ao, ai
					}
					if strings.Join(got, " ") == strings.Join(c15chainP(ai, ao, t.short, onService && t.outcome == 'P'), " ") {
						cls = "C15:chain-mismatch:unuse-removed-aliased-handler:" + mode
					}
					r.Fail(cls, "call %d: installed invoke handlers %v, IO handlers %v, short-circuit at %q\n expected %v\n observed %v (result %v, err %v)", nonce, invL, ioL, t.short, want, got, res, err)
					return
				}
				// results travel back through the invoke handlers in reverse order
				if err == nil && t.short == "" {
					wantRes := fmt.Sprintf("v%d", nonce)
					for i := len(invL) - 1; i >= 0; i-- {
						wantRes += "<" + invL[i]
					}
					if len(res) != 1 || fmt.Sprint(res[0]) != wantRes {
						r.Fail("C15:result-path:"+mode, "call %d returned %v, expected %q (each invoke handler appends its tag on the way back)", nonce, res, wantRes)
						return
					}
				}
				coreWant := 1
				if t.short != "" {
					coreWant = 0
				}
				if coreRuns[nonce] != coreWant {
					r.Fail("C15:core-runs:"+mode, "call %d: the built-in handler ran %d times, expected %d", nonce, coreRuns[nonce], coreWant)
					return
				}
			}
		}
	})
	st := sim.Drive(func() bool { return done })
	if st != verifsim.Done && sim.Failure() == nil {
		r.Fail("C15:history-stuck:"+mode, "status %v; parked %v", st, sim.ParkedNames())
	}
}

// ---- concurrent: Use/Unuse while calls are in flight (client side)

type c15op struct {
	kind  string   // use | unuse | call
	tags  []string // handlers used/unused
	chain string   // observed enter chain of one manager (call)
	which string   // "inv" | "io"
}

func c15Concurrent(r *Run, sim *verifsim.Sim, client *core.Client, coreRuns map[int]int) {
	pool := c15pool(false)
	byTag := map[string]*c15handler{}
	for _, h := range pool {
		byTag[h.tag] = h
	}
	var ops []porcupine.Operation
	record := func(cid int, in c15op, call, ret uint64) {
		ops = append(ops, porcupine.Operation{ClientId: cid, Input: in, Call: int64(call), Output: in.chain, Return: int64(ret)})
	}
	// initial list
	var init []*c15handler
	for i, n := 0, r.Plan(4); i < n; i++ {
		init = append(init, pool[r.Plan(len(pool))])
	}
	var initVals []core.PluginHandler
	var initTags []string
	for _, h := range init {
		initVals = append(initVals, h.value)
		initTags = append(initTags, h.tag)
	}
	if len(initVals) > 0 {
		client.Use(initVals...)
	}
	ncallers := 1 + r.Plan(3)
	nmut := 1 + r.Plan(2)
	finished := 0
	var traces []*c15trace
	gates := &optSource{}
	sim.AddSource(gates)
	gates.f = func() []verifsim.Option {
		var out []verifsim.Option
		for _, t := range traces {
			t := t
			if t.parked && t.gate != nil {
				out = append(out, verifsim.Option{Label: fmt.Sprintf("release call %d", t.id), Do: func() {
					g := t.gate
					t.gate = nil
					t.parked = false
					close(g)
				}})
			}
		}
		return out
	}
	nonce := 0
	for c := 0; c < ncallers; c++ {
		c := c
		ncalls := 1 + r.Plan(3)
		var mine []*c15trace
		for j := 0; j < ncalls; j++ {
			nonce++
			t := &c15trace{id: nonce, sim: sim}
			if r.PlanBool(2) {
				// park inside one of the handlers (whichever is installed when it gets there)
				t.gateTag = pool[r.Plan(len(pool))].tag
				t.gate = make(chan struct{})
			}
			mine = append(mine, t)
			traces = append(traces, t)
		}
		sim.Task(fmt.Sprintf("caller%d", c), func() {
			for _, t := range mine {
				ctx := context.WithValue(context.Background(), c15key{}, t)
				inv := sim.Event("call-begin", t.id)
				c15cur = nil
				_, err := client.InvokeContext(ctx, "f", []interface{}{t.id})
				end := sim.Event("call-end", t.id, fmt.Sprint(err))
				// split the marks into the invoke chain and the IO chain
				var invEnter, ioEnter, all []string
				var firstInv, firstIO uint64
				for i, m := range t.marks {
					all = append(all, m)
					if m[0] != '+' {
						continue
					}
					if strings.HasSuffix(m, "'") {
						if firstIO == 0 {
							firstIO = t.seqs[i]
						}
						ioEnter = append(ioEnter, strings.TrimSuffix(m[1:], "'"))
					} else {
						if firstInv == 0 {
							firstInv = t.seqs[i]
						}
						invEnter = append(invEnter, m[1:])
					}
				}
				// well-formedness of the onion actually walked
				if !c15balanced(t.marks) {
					r.Fail("C15:chain-corrupt:concurrent", "call %d walked an ill-formed chain %v", t.id, all)
					return
				}
				if firstInv == 0 {
					firstInv = end
				}
				if firstIO == 0 {
					firstIO = end
				}
				record(c, c15op{kind: "call", which: "inv", chain: strings.Join(invEnter, ",")}, inv, firstInv)
				record(c, c15op{kind: "call", which: "io", chain: strings.Join(ioEnter, ",")}, inv, firstIO)
				if coreRuns[t.id] != 1 {
					r.Fail("C15:core-runs:concurrent", "call %d: the built-in handler ran %d times", t.id, coreRuns[t.id])
					return
				}
			}
			finished++
		})
	}
	for m := 0; m < nmut; m++ {
		m := m
		nop := 1 + r.Plan(4)
		type mop struct {
			use  bool
			hs   []*c15handler
			vals []core.PluginHandler
			tags []string
		}
		var plan []mop
		for i := 0; i < nop; i++ {
			o := mop{use: r.PlanBool(2)}
			for j, k := 0, 1+r.Plan(2); j < k; j++ {
				h := pool[r.Plan(len(pool))]
				o.hs = append(o.hs, h)
				o.vals = append(o.vals, h.value)
				o.tags = append(o.tags, h.tag)
			}
			plan = append(plan, o)
		}
		sim.Task(fmt.Sprintf("mutator%d", m), func() {
			for _, o := range plan {
				kind := "unuse"
				if o.use {
					kind = "use"
				}
				b := sim.Event(kind+"-begin", strings.Join(o.tags, ","))
				if o.use {
					client.Use(o.vals...)
				} else {
					client.Unuse(o.vals...)
				}
				e := sim.Event(kind+"-end", strings.Join(o.tags, ","))
				// one operation per manager
				record(100+m, c15op{kind: kind, which: "inv", tags: o.tags}, b, e)
				record(100+m, c15op{kind: kind, which: "io", tags: o.tags}, b, e)
			}
			finished++
		})
	}
	st := sim.Drive(func() bool { return finished == ncallers+nmut })
	if sim.Failure() != nil {
		return
	}
	if st != verifsim.Done {
		if st == verifsim.StepCap {
			r.Res.Verdict = "inconclusive"
			return
		}
		r.Fail("C15:stuck:concurrent", "status %v; parked %v", st, sim.ParkedNames())
		return
	}
	// linearizability of each manager's history against the list model
	for _, which := range []string{"inv", "io"} {
		var sub []porcupine.Operation
		for _, o := range ops {
			if o.Input.(c15op).which == which {
				sub = append(sub, o)
			}
		}
		var initL []string
		for _, h := range init {
			if which == "inv" && h.inv || which == "io" && h.io {
				initL = append(initL, h.tag)
			}
		}
		model := porcupine.Model{
			Init: func() interface{} { return strings.Join(initL, ",") },
			Step: func(state, input, output interface{}) (bool, interface{}) {
				s := state.(string)
				var list []string
				if s != "" {
					list = strings.Split(s, ",")
				}
				in := input.(c15op)
				switch in.kind {
				case "use":
					for _, t := range in.tags {
						h := byTag[t]
						if which == "inv" && h.inv || which == "io" && h.io {
							list = append(list, t)
						}
					}
				case "unuse":
					var out []string
					for _, x := range list {
						if !contains(in.tags, x) {
							out = append(out, x)
						}
					}
					list = out
				case "call":
					return strings.Join(list, ",") == output.(string), s
				}
				return true, strings.Join(list, ",")
			},
			Equal: func(a, b interface{}) bool { return a.(string) == b.(string) },
		}
		res := porcupine.CheckOperationsTimeout(model, sub, 20*time.Second)
		sim.Probes["porcupine-"+string(res)]++
		if res == porcupine.Illegal {
			var desc []string
			for _, o := range sub {
				in := o.Input.(c15op)
				desc = append(desc, fmt.Sprintf("[%d,%d] %s %v %s", o.Call, o.Return, in.kind, in.tags, in.chain))
			}
			r.Fail("C15:not-linearizable:"+which, "no order of the Use/Unuse operations explains the %s chains observed by the calls (each call must see the list as of one instant between its start and its first handler):\n %s", which, strings.Join(desc, "\n "))
			return
		}
		if res == porcupine.Unknown {
			r.Res.Verdict = "inconclusive"
		}
	}
}

func contains(xs []string, x string) bool {
	for _, y := range xs {
		if y == x {
			return true
		}
	}
	return false
}

// c15balanced checks that marks form properly nested +x ... -x pairs around at
// most one core mark.
func c15balanced(marks []string) bool {
	var stack []string
	core := 0
	for _, m := range marks {
		switch {
		case m == "core":
			core++
		case m[0] == '+':
			stack = append(stack, m[1:])
		case m[0] == '-':
			if len(stack) == 0 || stack[len(stack)-1] != m[1:] {
				return false
			}
			stack = stack[:len(stack)-1]
		}
	}
	return len(stack) == 0 && core <= 1
}
