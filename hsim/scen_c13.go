package hsim

// C13 Requests larger than MaxRequestLength are never processed.

import (
	"bufio"
	"bytes"
	"context"
	"errors"
	"fmt"
	"io"
	"net/http"
	"strconv"
	"strings"
	"time"

	"github.com/hprose/hprose-golang/v3/rpc/core"
	"verifsim"
)

func init() { scenarios["C13"] = scenC13 }

// exactCall builds an hprose call of function "cnt" with one bytes argument
// whose total encoded size is exactly size; for sizes too small to hold a call
// it returns arbitrary bytes and valid=false.
func exactCall(size int) (b []byte, valid bool) {
	const head = `Cs3"cnt"a1{b`
	for n := 0; n <= size; n++ {
		// C s3"cnt" a1{ b <n> " ... " } z
		total := len(head) + len(strconv.Itoa(n)) + 1 + n + 1 + 2
		if n == 0 {
			total = len(head) - 1 + 1 + 2 // 'e' = empty bytes/string
		}
		if total == size {
			var buf bytes.Buffer
			if n == 0 {
				buf.WriteString(`Cs3"cnt"a1{e}z`)
			} else {
				buf.WriteString(head)
				buf.WriteString(strconv.Itoa(n))
				buf.WriteByte('"')
				buf.Write(bytes.Repeat([]byte{'x'}, n))
				buf.WriteString(`"}z`)
			}
			if buf.Len() != size {
				panic("exactCall arithmetic")
			}
			return buf.Bytes(), true
		}
		if total > size {
			break
		}
	}
	return bytes.Repeat([]byte{'?'}, size), false
}

func scenC13(r *Run) {
	limits := []int{0, 1, 7, 64, 1000, 65499, -1} // -1: the default
	kind := AllKinds[r.Index%len(AllKinds)]
	sub := r.Index / len(AllKinds)
	limit := limits[sub%len(limits)]
	sub /= len(limits)
	decls := []string{"truthful"}
	if kind == "http" || kind == "fasthttp" {
		decls = []string{"truthful", "chunked", "truthful", "chunked-small-chunks"}
	}
	if kind == "socket" || kind == "udp" {
		decls = []string{"truthful", "truthful", "declared-smaller", "declared-larger"}
	}
	decl := decls[sub%len(decls)]
	sub /= len(decls)
	if v, ok := r.Opt["kind"]; ok {
		kind = v
	}
	r.Param("kind", kind)
	r.Param("limit", limit)
	r.Param("decl", decl)
	RegisterKind(kind)
	sim := r.StartSim(verifsim.Config{IdleCap: time.Hour, StepCap: 200000})
	service := core.NewService()
	L := service.MaxRequestLength
	if limit >= 0 {
		service.MaxRequestLength = limit
		L = limit
	}
	ioCount, fnCount := 0, 0
	var ioSizes []int
	service.Use(func(ctx context.Context, request []byte, next core.NextIOHandler) ([]byte, error) {
		ioCount++
		ioSizes = append(ioSizes, len(request))
		sim.Event("io-plugin", len(request))
		return next(ctx, request)
	})
	service.AddFunction(func(b []byte) int {
		fnCount++
		return len(b)
	}, "cnt")
	fx := NewFixture(r, kind, service)
	client := fx.NewClient()
	client.Timeout = 30 * time.Second

	base := L
	if limit < 0 {
		base = 2000
	}
	sizes := []int{base - 1, base, base + 1, 4*base + 100}
	if kind == "udp" {
		for i := range sizes {
			if sizes[i] > 65499 {
				sizes[i] = 65499
			}
		}
	}
	type outcome struct {
		size      int
		valid     bool
		err       error
		resp      []byte
		rawStatus string
		done      bool
	}
	var outs []*outcome
	step := 0
	sim.Task("sender", func() {
		for _, size := range sizes {
			if size < 0 {
				continue
			}
			o := &outcome{size: size}
			outs = append(outs, o)
			var body []byte
			body, o.valid = exactCall(size)
			io0, fn0 := ioCount, fnCount
			sim.Event("send", size, decl)
			switch decl {
			case "truthful":
				o.resp, o.err = client.Request(clientCtx(client), body)
			case "chunked", "chunked-small-chunks":
				o.rawStatus, o.resp, o.err = rawHTTPChunked(fx, body, decl == "chunked-small-chunks")
			case "declared-smaller", "declared-larger":
				o.rawStatus, o.resp, o.err = rawLyingFrame(fx, body, decl == "declared-smaller", L)
			}
			o.done = true
			sim.Event("outcome", size, o.rawStatus, len(o.resp), fmt.Sprint(o.err))
			dio, dfn := ioCount-io0, fnCount-fn0
			// universal: nothing longer than the limit is ever processed
			for _, s := range ioSizes {
				if s > L {
					r.Fail(fmt.Sprintf("C13:oversized-request-processed:%s:%s", kind, decl), "limit %d: the IO plugin was handed a request of %d bytes (sent: %d bytes, %s)", L, s, size, decl)
					return
				}
			}
			over := size > L
			switch decl {
			case "truthful":
				if over {
					if dio != 0 || dfn != 0 {
						r.Fail("C13:over-limit-processed:"+kind+":truthful", "limit %d, body %d: IO plugin ran %d times, function %d times", L, size, dio, dfn)
						return
					}
					if !errors.Is(o.err, core.ErrRequestEntityTooLarge) && (o.err == nil || o.err.Error() != core.ErrRequestEntityTooLarge.Error()) {
						how := ""
						if o.err != nil && kind == "socket" && (strings.Contains(o.err.Error(), "write") && strings.Contains(o.err.Error(), "closed") || o.err.Error() == "EOF" || o.err.Error() == "unexpected EOF") {
							// the server refused on the header and closed; the client's write of the body failed before
							// its receive loop read the refusal (the caller sees that write error, or the EOF - "unexpected" if
							// the refusal frame was cut - of the receive loop that the teardown ended, whichever comes first)
							how = ":body-write-failed-on-closed-connection"
						}
						r.Fail("C13:no-too-large-error:"+kind+":truthful"+how, "limit %d, body %d: the caller got (%d bytes, %v) instead of the request-too-large error", L, size, len(o.resp), o.err)
						return
					}
				} else {
					want := 0
					if o.valid {
						want = 1
					}
					if dio != 1 || dfn != want || o.err != nil {
						r.Fail("C13:within-limit-not-processed:"+kind+":truthful", "limit %d, body %d (valid call %v): IO plugin ran %d times, function %d times, error %v", L, size, o.valid, dio, dfn, o.err)
						return
					}
				}
			case "chunked", "chunked-small-chunks":
				if over {
					if dio != 0 || dfn != 0 {
						r.Fail("C13:over-limit-processed:"+kind+":chunked", "limit %d, chunked body of %d bytes: IO plugin ran %d times, function %d times (status %q)", L, size, dio, dfn, o.rawStatus)
						return
					}
					if o.rawStatus == "200" {
						r.Fail("C13:no-too-large-signal:"+kind+":chunked", "limit %d, chunked body of %d bytes answered with status 200", L, size)
						return
					}
					// over HTTP the request-too-large error is status 413: that is what the hprose clients turn into
					// ErrRequestEntityTooLarge, any other refusal reaches the caller as something else
					if o.rawStatus != "413" {
						r.Fail("C13:no-too-large-error:"+kind+":chunked", "limit %d, chunked body of %d bytes refused with status %q (err %v), not 413 Request Entity Too Large", L, size, o.rawStatus, o.err)
						return
					}
				} else if dio != 1 {
					r.Fail("C13:within-limit-not-processed:"+kind+":chunked", "limit %d, chunked body of %d bytes: IO plugin ran %d times (status %q err %v)", L, size, dio, o.rawStatus, o.err)
					return
				}
			default:
				// lying frame: whatever was processed must be within the limit (checked above)
				// and a frame that declares or carries more than the limit gets no normal answer
				if over && kind == "udp" && (dio != 0 || dfn != 0) {
					// a datagram is received whole: what counts is what it carries
					r.Fail("C13:over-limit-processed:"+kind+":"+decl, "limit %d: a datagram carrying %d body bytes (%s) was processed: IO plugin ran %d times, function %d times", L, size, decl, dio, dfn)
					return
				}
				if kind == "socket" && decl == "declared-larger" && size+5 > L && !strings.HasPrefix(o.rawStatus, "error-frame:") {
					// the header alone says the request is too large: the refusal must not wait for the body (the
					// peer here sends fewer bytes than it declared and then waits for the answer)
					r.Fail("C13:refusal-waits-for-the-body:"+kind+":"+decl, "limit %d: a frame declaring %d bytes and carrying %d got no request-too-large frame within 2 s: %s %v", L, size+5, size, o.rawStatus, o.err)
					return
				}
				if over && o.rawStatus == "normal-response" && decl == "declared-larger" {
					r.Fail("C13:no-too-large-signal:"+kind+":"+decl, "limit %d, %d bytes sent: normal response", L, size)
					return
				}
			}
			step++
		}
		step = 1000
	})
	st := sim.Drive(func() bool { return step == 1000 })
	if sim.Failure() != nil {
		return
	}
	if st != verifsim.Done {
		if st == verifsim.StepCap {
			r.Res.Verdict = "inconclusive"
			return
		}
		r.Fail("C13:sender-stuck:"+kind+":"+decl, "status %v at step %d (limit %d); parked %v", st, step, L, sim.ParkedNames())
		return
	}
	// several oversized requests at once (the multiplexing transports refuse from their read loop while a writer
	// loop sends the answers): every caller gets its refusal
	if decl == "truthful" && limit >= 0 && L >= 7 && L <= 1000 && (kind == "udp" || kind == "socket" || strings.HasPrefix(kind, "websocket")) {
		n := 2 + r.Plan(3)
		errs := make([]error, n)
		fin := 0
		io0, fn0 := ioCount, fnCount
		for i := 0; i < n; i++ {
			i := i
			cl := fx.NewClient()
			cl.Timeout = 30 * time.Second
			body, _ := exactCall(L + 1 + i)
			sim.Task(fmt.Sprintf("zover%d", i), func() {
				_, errs[i] = cl.Request(clientCtx(cl), body)
				fin++
			})
		}
		if st := sim.Drive(func() bool { return fin == n }); sim.Failure() != nil || st != verifsim.Done {
			if sim.Failure() == nil && st != verifsim.StepCap {
				r.Fail("C13:sender-stuck:"+kind+":concurrent-oversized", "status %v with %d oversized requests in flight; parked %v", st, n, sim.ParkedNames())
			}
			return
		}
		if ioCount != io0 || fnCount != fn0 {
			r.Fail("C13:over-limit-processed:"+kind+":concurrent-oversized", "limit %d: of %d simultaneous oversized requests the IO plugin saw %d, the function %d", L, n, ioCount-io0, fnCount-fn0)
			return
		}
		for i, e := range errs {
			if !errors.Is(e, core.ErrRequestEntityTooLarge) && (e == nil || e.Error() != core.ErrRequestEntityTooLarge.Error()) {
				if kind == "socket" && e != nil && (strings.Contains(e.Error(), "closed") || e.Error() == "EOF" || e.Error() == "unexpected EOF") {
					continue // the recorded socket finding: refusal lost when the body write fails first
				}
				r.Fail("C13:no-too-large-error:"+kind+":concurrent-oversized", "limit %d: %d oversized requests at once, caller %d got %v instead of the request-too-large error (all: %v)", L, n, i, e, errs)
				return
			}
		}
	}
}

// rawHTTPChunked posts body with Transfer-Encoding: chunked from a raw
// connection and returns the status code.
func rawHTTPChunked(fx *Fixture, body []byte, small bool) (status string, resp []byte, err error) {
	c := rawStream(fx)
	defer c.Close()
	var buf bytes.Buffer
	fmt.Fprintf(&buf, "POST / HTTP/1.1\r\nHost: %s\r\nTransfer-Encoding: chunked\r\nContent-Type: application/octet-stream\r\n\r\n", fx.Addr)
	chunk := len(body)
	if small {
		chunk = 7
	}
	for off := 0; off < len(body); off += chunk {
		end := off + chunk
		if end > len(body) {
			end = len(body)
		}
		fmt.Fprintf(&buf, "%x\r\n", end-off)
		buf.Write(body[off:end])
		buf.WriteString("\r\n")
	}
	buf.WriteString("0\r\n\r\n")
	c.Write(buf.Bytes())
	br := bufio.NewReader(c)
	res, err := http.ReadResponse(br, nil)
	verifsim.ForceYield(-3)
	if err != nil {
		return "closed", nil, err
	}
	defer res.Body.Close()
	b, _ := io.ReadAll(res.Body)
	verifsim.ForceYield(-4)
	return strconv.Itoa(res.StatusCode), b, nil
}

// rawLyingFrame sends a socket/udp frame whose header declares fewer or more
// bytes than follow (then closes, on streams) and reports what came back.
func rawLyingFrame(fx *Fixture, body []byte, smaller bool, limit int) (status string, resp []byte, err error) {
	decl := len(body) + 5
	if smaller {
		decl = len(body) / 2
	}
	if fx.Kind == "udp" {
		c, _ := fx.UDP.Dial(fx.udpSrv)
		c.Write(append(udpHeader(decl&0xffff, 3), body...))
		// a refusal or nothing: wait a little (fake time) for whatever the server does with it
		time.Sleep(50 * time.Millisecond)
		verifsim.ForceYield(-9)
		return "sent", nil, nil
	}
	c := rawStream(fx)
	c.Write(append(sockHeader(decl, 3), body...))
	c.SetReadDeadline(time.Now().Add(2 * time.Second))
	idx, rb, ok, rerr := readSockFrame(c)
	verifsim.ForceYield(-5)
	c.Close()
	if rerr != nil || !ok {
		return "closed", nil, rerr
	}
	if idx&0x80000000 != 0 {
		return "error-frame:" + string(rb), rb, nil
	}
	return "normal-response", rb, nil
}
