package hsim

// C04 Decoding untrusted bytes never crashes, hangs or over-allocates.
//
// The fault model is byte faults on stored and transmitted streams: truncation
// (EOF / close at an arbitrary instant), substitution, insertion and deletion of
// single bytes, grammar-aware replacement of counts, lengths and reference
// indices, and compositions - applied to valid streams produced by the real
// encoder and the real RPC codecs, and delivered to Unmarshal (from memory and
// through the fragmenting simulated reader), to a real Service as a request and
// to a real client codec as a response.

import (
	"bytes"
	"context"
	"fmt"
	"math/big"
	"os"
	"reflect"
	"regexp"
	"runtime/metrics"
	"sort"
	"strings"
	"sync"
	"syscall"
	"time"

	"github.com/google/uuid"
	hio "github.com/hprose/hprose-golang/v3/io"
	"github.com/hprose/hprose-golang/v3/rpc/core"
	"verifsim"
)

func init() { scenarios["C04"] = scenC04; batchProps["C04"] = true }

var c04Dict = []byte("ildnetfNIDTZbusgamcor+-;{}\".HCREz0123456789\x00\x80\xff")

type c04dest struct {
	name string
	mk   func() interface{}
}

var c04Dests = []c04dest{
	{"interface{}", func() interface{} { return new(interface{}) }},
	{"int", func() interface{} { return new(int) }}, {"int64", func() interface{} { return new(int64) }}, {"uint8", func() interface{} { return new(uint8) }},
	{"float64", func() interface{} { return new(float64) }}, {"bool", func() interface{} { return new(bool) }}, {"string", func() interface{} { return new(string) }},
	{"[]byte", func() interface{} { return new([]byte) }}, {"time.Time", func() interface{} { return new(time.Time) }}, {"*big.Int", func() interface{} { return new(*big.Int) }},
	{"[]int", func() interface{} { return new([]int) }}, {"[]string", func() interface{} { return new([]string) }}, {"[]interface{}", func() interface{} { return new([]interface{}) }},
	{"[3]int", func() interface{} { return new([3]int) }}, {"map[string]int", func() interface{} { return new(map[string]int) }},
	{"map[string]interface{}", func() interface{} { return new(map[string]interface{}) }}, {"map[interface{}]interface{}", func() interface{} { return new(map[interface{}]interface{}) }},
	{"GOuter", func() interface{} { return new(GOuter) }}, {"*GOuter", func() interface{} { return new(*GOuter) }}, {"*GNode", func() interface{} { return new(*GNode) }},
	{"GTagged", func() interface{} { return new(GTagged) }}, {"*int", func() interface{} { return new(*int) }}, {"**string", func() interface{} { return new(**string) }},
	{"[][]int", func() interface{} { return new([][]int) }}, {"map[int]string", func() interface{} { return new(map[int]string) }}, {"uuid.UUID", func() interface{} { return new(uuid.UUID) }},
	{"complex128", func() interface{} { return new(complex128) }}, {"map[string][]string", func() interface{} { return new(map[string][]string) }},
}

var allocSample = []metrics.Sample{{Name: "/gc/heap/allocs:bytes"}}

func allocatedBytes() uint64 {
	metrics.Read(allocSample)
	return allocSample[0].Value.Uint64()
}

type c04finding struct {
	class, detail string
	count         int
}

type c04ctx struct {
	options  bool // decode with non-default decoder options in this run
	garbage  int
	r        *Run
	findings map[string]*c04finding
	decodes  int
	distinct map[uint64]bool
	maxAlloc uint64
}

func (c *c04ctx) note(class, f string, a ...interface{}) {
	if fd := c.findings[class]; fd != nil {
		fd.count++
		return
	}
	c.findings[class] = &c04finding{class: class, detail: fmt.Sprintf(f, a...), count: 1}
}

// guarded runs f; it reports panics and over-allocation relative to inputLen.
func (c *c04ctx) guarded(what string, input []byte, f func()) (panicked bool) {
	hangGuard(what, input)
	defer hangGuard("", nil)
	a0 := allocatedBytes()
	defer func() {
		if p := recover(); p != nil {
			panicked = true
			c.note("C04:panic:"+where(what)+":"+hproseFrame()+":"+normPanic(p), "%s, input %q (%d bytes): %v", what, clip(input, 160), len(input), p)
		}
		used := allocatedBytes() - a0
		if used > c.maxAlloc {
			c.maxAlloc = used
		}
		if used > 1<<20+1024*uint64(len(input)) {
			c.note("C04:over-allocation:"+where(what)+":"+cause(input), "%s, input %q (%d bytes) made the decoder allocate %d bytes (%s)", what, clip(input, 160), len(input), used, sizeClass(used))
		}
	}()
	f()
	return
}

// where strips the destination type from "unmarshal:<type>".
func where(what string) string {
	if i := strings.Index(what, ":"); i >= 0 {
		return what[:i]
	}
	return what
}

var bigCountRe = regexp.MustCompile(`([a-zA-Z])(\d{4,})`)

// cause names the tag whose count or length is implausibly large in the input.
func cause(input []byte) string {
	if m := bigCountRe.FindSubmatch(input); m != nil {
		return "count-after-tag-" + string(m[1])
	}
	return "other"
}

func sizeClass(n uint64) string {
	switch {
	case n >= 1<<30:
		return "GiB"
	case n >= 100<<20:
		return "100MiB+"
	case n >= 10<<20:
		return "10MiB+"
	}
	return "MiB+"
}

// decodeInto decodes input into a fresh destination of every selected type.
func (c *c04ctx) decodeInto(input []byte, dests []c04dest, refMode bool, viaReader bool) {
	for _, d := range dests {
		d := d
		c.decodes++
		what := "unmarshal:"
		if viaReader {
			what = "unmarshal-reader:"
		}
		c.guarded(what+d.name, input, func() {
			var dec *hio.Decoder
			if viaReader {
				dec = hio.NewDecoderFromReader(&simReader{data: input, chunks: []int{1, 2, 3, 5, 1, 8, 1, 1, 64}, errAt: -1})
			} else {
				dec = hio.NewDecoder(input)
			}
			dec.Simple(!refMode)
			if c.options {
				// every decoder option away from its default: typed lists and struct values, for one, make keys
				// and elements of types the default options never produce
				dec.LongType, dec.RealType, dec.MapType = hio.LongTypeBigInt, hio.RealTypeFloat32, hio.MapTypeSIMap
				dec.StructType, dec.ListType = hio.StructTypeValue, hio.ListTypeSlice
				if c.decodes%2 == 0 {
					dec.MapType = hio.MapTypeIIMap
				}
			}
			dec.Decode(d.mk())
		})
	}
}

var countRe = regexp.MustCompile(`[abmsocr](\d+)["{;]|[il](-?\d+);`)

func scenC04(r *Run) {
	c := &c04ctx{r: r, findings: map[string]*c04finding{}, distinct: map[uint64]bool{}}
	target := []string{"unmarshal", "unmarshal", "unmarshal-reader", "request", "response"}[r.Index%5]
	if v, ok := r.Opt["target"]; ok {
		target = v
	}
	r.Param("target", target)
	switch target {
	case "unmarshal", "unmarshal-reader":
		c04Unmarshal(r, c, target == "unmarshal-reader")
	case "request":
		c04Request(r, c)
	case "response":
		c04Response(r, c)
	}
	// report
	var classes []string
	for k := range c.findings {
		classes = append(classes, k)
	}
	sort.Strings(classes)
	for i, k := range classes {
		fd := c.findings[k]
		if i == 0 {
			r.Res.Verdict, r.Res.Class, r.Res.Detail = "violation", fd.class, fd.detail
		} else {
			r.Res.More = append(r.Res.More, Viol{Class: fd.class, Detail: fd.detail, Count: fd.count})
		}
	}
	r.Res.Cases = c.decodes
	r.Res.Nontrivial = true
	if r.Res.Extra == nil {
		r.Res.Extra = map[string]interface{}{}
	}
	r.Res.Extra["distinct_cases"] = len(c.distinct)
	r.Res.Extra["max_alloc_bytes"] = 0
	r.Param("max_alloc", c.maxAlloc)
}

// faults enumerates the single-byte faults of a stream (subsampled by the tape)
// and calls f for each faulty stream.
func (c *c04ctx) faults(r *Run, stream []byte, f func(desc string, faulty []byte)) {
	n := len(stream)
	emit := func(desc string, b []byte) {
		h := verifsim.HashString(string(b))
		if c.distinct[h] {
			return
		}
		c.distinct[h] = true
		f(desc, b)
	}
	// (i) every truncation
	for k := 0; k < n; k++ {
		emit(fmt.Sprintf("truncated to %d", k), stream[:k])
	}
	// a tape-chosen subset of the dictionary for this run (the thorough tier covers all of it over many runs)
	var subs []byte
	for i := 0; i < 10; i++ {
		subs = append(subs, c04Dict[r.Plan(len(c04Dict))])
	}
	for off := 0; off < n; off++ {
		for _, b := range subs {
			if stream[off] != b {
				m := append([]byte(nil), stream...)
				m[off] = b
				emit(fmt.Sprintf("byte %d substituted by %q", off, b), m)
			}
		}
		emit(fmt.Sprintf("byte %d deleted", off), append(append([]byte(nil), stream[:off]...), stream[off+1:]...))
		for _, b := range subs[:4] {
			m := append(append(append([]byte(nil), stream[:off]...), b), stream[off:]...)
			emit(fmt.Sprintf("%q inserted at %d", b, off), m)
		}
	}
	// (ii) grammar-aware: every count, length, reference index and integer replaced
	for _, loc := range countRe.FindAllSubmatchIndex(stream, -1) {
		s, e := loc[2], loc[3]
		if s < 0 {
			s, e = loc[4], loc[5]
		}
		orig := string(stream[s:e])
		var on int
		fmt.Sscan(orig, &on)
		for _, rep := range []string{"-1", "0", fmt.Sprint(on + 1), fmt.Sprint(on - 1), "99", "70000", "2147483647", "2147483648", "100000000000", "9999999999999999999999"} {
			if rep == orig {
				continue
			}
			m := append(append(append([]byte(nil), stream[:s]...), rep...), stream[e:]...)
			emit(fmt.Sprintf("number %s at %d replaced by %s", orig, s, rep), m)
		}
	}
	// (iii) compositions of 2-4 faults
	for t := 0; t < 40 && n > 0; t++ {
		m := append([]byte(nil), stream...)
		for k, nk := 0, 2+r.Plan(3); k < nk && len(m) > 0; k++ {
			off := r.Plan(len(m))
			switch r.Plan(3) {
			case 0:
				m[off] = c04Dict[r.Plan(len(c04Dict))]
			case 1:
				m = append(m[:off], m[off+1:]...)
			case 2:
				m = append(append(append([]byte(nil), m[:off]...), c04Dict[r.Plan(len(c04Dict))]), m[off:]...)
			}
		}
		emit("composition", m)
	}
}

func c04Unmarshal(r *Run, c *c04ctx, viaReader bool) {
	c.options = r.Plan(3) == 0
	r.Param("decoder_options", c.options)
	it := r.genValue(2)
	refMode := r.PlanBool(2) || r.hasCycle()
	enc := hio.NewEncoder(nil).Simple(!refMode)
	if err := enc.Encode(it.V); err != nil {
		r.Res.Verdict = "inconclusive"
		return
	}
	stream := append([]byte(nil), enc.Bytes()...)
	if len(stream) > 400 {
		stream = stream[:400] // bound the enumeration; a cut stream is just another corpus member
	}
	r.Param("kind", it.Kind)
	r.Param("len", len(stream))
	// destinations: interface{}, the right one, and four tape-chosen others
	dests := []c04dest{c04Dests[0], {it.Kind, it.New}}
	for i := 0; i < 4; i++ {
		dests = append(dests, c04Dests[r.Plan(len(c04Dests))])
	}
	// strict prefixes of a complete value must leave an error, never a silent value
	if len(enc.Bytes()) <= 400 {
		for k := 0; k < len(stream); k++ {
			for _, d := range dests[:2] {
				var err error
				c.decodes++
				c.guarded("unmarshal:"+d.name, stream[:k], func() {
					dec := hio.NewDecoder(stream[:k]).Simple(!refMode)
					dec.Decode(d.mk())
					err = dec.Error
				})
				if err == nil && !prefixIsComplete(stream, k, refMode, d) {
					c.note("C04:truncated-input-decoded-without-error:"+d.name, "prefix of %d bytes of the %d-byte stream %q decoded into %s without error", k, len(stream), clip(stream, 120), d.name)
				}
			}
		}
	}
	c.faults(r, stream, func(desc string, faulty []byte) {
		c.decodeInto(faulty, dests, refMode, viaReader)
	})
	// arbitrary byte strings, derived from no valid stream: grammar-free sequences over the tag alphabet (what a
	// peer speaking another protocol, or line noise, looks like to the decoder)
	for i := 0; i < 120; i++ {
		g := make([]byte, 1+r.Plan(40))
		for j := range g {
			g[j] = c04Dict[r.Plan(len(c04Dict))]
		}
		c.garbage++
		c.decodeInto(g, dests, i%2 == 0, viaReader)
	}
	r.Param("garbage_strings", c.garbage)
}

// garbageStrings yields grammar-free byte strings over the tag alphabet, optionally behind a valid-looking prefix.
func (c *c04ctx) garbageStrings(r *Run, n int, prefixes []string, f func(g []byte)) {
	for i := 0; i < n; i++ {
		g := []byte(prefixes[i%len(prefixes)])
		for j, k := 0, 1+r.Plan(40); j < k; j++ {
			g = append(g, c04Dict[r.Plan(len(c04Dict))])
		}
		c.garbage++
		f(g)
	}
	r.Param("garbage_strings", c.garbage)
}

// prefixIsComplete reports whether stream[:k] is itself a complete encoding that
// decodes (in memory, fault-free) to a value equal to what the whole stream's
// first value denotes - never the case for a strict prefix of a single
// self-delimiting value, except that decoding into a scalar destination may
// legitimately stop early (e.g. 'i12' of 'i123;' is not complete, but a single
// digit '1' of '12' cannot occur: multi-digit integers carry a tag).
func prefixIsComplete(stream []byte, k int, refMode bool, d c04dest) bool { return false }

func c04Request(r *Run, c *c04ctx) {
	service := core.NewService()
	executed := 0
	service.AddFunction(func(a int, s string, l []int, m map[string]interface{}, o *GOuter) string {
		executed++
		return fmt.Sprint(a, s, len(l), len(m), o != nil)
	}, "fn")
	service.AddFunction(func(xs ...interface{}) int { executed++; return len(xs) }, "va")
	service.AddFunction(func(x int) int { return x + 1 }, "ok")
	client := core.NewClient("mock://c04")
	cc := core.NewClientContext()
	cc.Init(client)
	it := r.genValue(1)
	var req []byte
	var err error
	if r.PlanBool(2) {
		n := 3
		req, err = client.Codec.Encode("fn", []interface{}{r.Plan(1000), r.genString(), []int{1, 2, r.Plan(9)}, map[string]interface{}{"k": it.V}, &GOuter{X: 1, In: &GInner{A: 2}, P: &n}}, cc)
	} else {
		req, err = client.Codec.Encode("va", []interface{}{it.V, r.genString(), it.V}, cc)
	}
	if err != nil {
		r.Res.Verdict = "inconclusive"
		return
	}
	stream := append([]byte(nil), req...)
	if len(stream) > 300 {
		stream = stream[:300]
	}
	r.Param("len", len(stream))
	handle := func(b []byte) (resp []byte, herr error) {
		sc := core.NewServiceContext(service)
		return service.Handle(core.WithContext(context.Background(), sc), b)
	}
	c.faults(r, stream, func(desc string, faulty []byte) {
		c.decodes++
		c.guarded("service-request", faulty, func() { handle(faulty) })
	})
	c.garbageStrings(r, 150, []string{"", "C", `Cs2"fn"a`, `Cs2"va"a3{`, "H"}, func(g []byte) {
		c.decodes++
		c.guarded("service-request", g, func() { handle(g) })
	})
	// the service still works
	var resp []byte
	c.guarded("service-request", []byte(`Cs2"ok"a1{1}z`), func() { resp, _ = handle([]byte(`Cs2"ok"a1{1}z`)) })
	if !bytes.Equal(resp, []byte("R2z")) {
		c.note("C04:service-broken-after-malformed-requests", "sentinel call answered %q", resp)
	}
}

func c04Response(r *Run, c *c04ctx) {
	service := core.NewService()
	sc := core.NewServiceContext(service)
	client := core.NewClient("mock://c04")
	it := r.genValue(2)
	var result interface{} = it.V
	if r.PlanBool(4) {
		result = fmt.Errorf("some failure %s", r.genString())
	}
	resp, err := service.Codec.Encode(result, sc)
	if err != nil {
		r.Res.Verdict = "inconclusive"
		return
	}
	stream := append([]byte(nil), resp...)
	if len(stream) > 300 {
		stream = stream[:300]
	}
	r.Param("kind", it.Kind)
	r.Param("len", len(stream))
	rts := [][]reflect.Type{
		{reflect.TypeOf((*interface{})(nil)).Elem()},
		{reflect.TypeOf(it.New()).Elem()},
		{reflect.TypeOf(0), reflect.TypeOf("")},
		{reflect.TypeOf([]int(nil))},
		{reflect.TypeOf((*GOuter)(nil))},
		{reflect.TypeOf(map[string]interface{}(nil))},
		{},
	}
	c.faults(r, stream, func(desc string, faulty []byte) {
		for _, rt := range rts[:2+len(faulty)%6] {
			rt := rt
			c.decodes++
			c.guarded("client-response", faulty, func() {
				cc := core.NewClientContext()
				cc.ReturnType = rt
				cc.Init(client)
				client.Codec.Decode(faulty, cc)
			})
		}
	})
	c.garbageStrings(r, 150, []string{"", "R", "Ra2{", "E", "H", "Rm1{"}, func(g []byte) {
		rt := rts[len(g)%len(rts)]
		c.decodes++
		c.guarded("client-response", g, func() {
			cc := core.NewClientContext()
			cc.ReturnType = rt
			cc.Init(client)
			client.Codec.Decode(g, cc)
		})
	})
	_ = big.NewInt
	_ = strings.Join
}

// hangGuard: a decode that has burnt more than 3 s of this process's CPU time (or
// 60 s of real time) without returning ends the worker with a line the driver
// turns into a violation (the input is attributed). CPU time, not wall time: on a
// loaded machine a worker may not be scheduled for seconds.
var hangMu sync.Mutex
var hangWhat string
var hangInput []byte
var hangSince time.Time
var hangCPU time.Duration
var hangOnce sync.Once

func cpuTime() time.Duration {
	var ru syscall.Rusage
	if syscall.Getrusage(syscall.RUSAGE_SELF, &ru) != nil {
		return 0
	}
	return time.Duration(ru.Utime.Nano() + ru.Stime.Nano())
}

func hangGuard(what string, input []byte) {
	hangOnce.Do(func() {
		go func() {
			for {
				time.Sleep(250 * time.Millisecond)
				hangMu.Lock()
				w, in, since, cpu0 := hangWhat, hangInput, hangSince, hangCPU
				hangMu.Unlock()
				if w != "" && (cpuTime()-cpu0 > 3*time.Second || time.Since(since) > 60*time.Second) {
					fmt.Fprintf(os.Stderr, "VERIF-HANG class=C04:hang:%s:%s detail=%s, input %q (%d bytes) did not finish decoding within 3s of CPU time\n", where(w), cause(in), w, clip(in, 160), len(in))
					os.Exit(97)
				}
			}
		}()
	})
	hangMu.Lock()
	hangWhat, hangInput, hangSince = what, input, time.Now()
	if what != "" {
		hangCPU = cpuTime()
	}
	hangMu.Unlock()
}
