package hsim

// C17 Limiters bound concurrency and rate and never lose permits.

import (
	"context"
	"errors"
	"fmt"
	"math"
	"sort"
	"time"

	"github.com/hprose/hprose-golang/v3/rpc/core"
	"github.com/hprose/hprose-golang/v3/rpc/plugins/limiter"
	"verifsim"
)

func init() { scenarios["C17"] = scenC17 }

func scenC17(r *Run) {
	mode := []string{"concurrent", "rate-seq", "concurrent", "rate-conc", "rate-aligned"}[r.Index%5]
	if v, ok := r.Opt["mode"]; ok {
		mode = v
	}
	r.Param("mode", mode)
	if mode == "concurrent" {
		c17Concurrent(r)
	} else {
		c17Rate(r, mode != "rate-seq", mode == "rate-aligned")
	}
}

func c17Concurrent(r *Run) {
	max := 1 + r.Plan(4)
	ntasks := 2 + r.Plan(9)
	timeout := r.PlanDur(0, 0, 10*time.Millisecond, 200*time.Millisecond, 5*time.Second)
	var stalls []time.Duration
	if r.PlanBool(2) {
		stalls = []time.Duration{time.Millisecond, 10 * time.Millisecond, 200 * time.Millisecond}
	}
	r.Param("max", max)
	r.Param("tasks", ntasks)
	r.Param("timeout", timeout.String())
	sim := r.StartSim(verifsim.Config{IdleCap: time.Hour, StepCap: 100000, StallChoices: stalls, StallWeight: 8, GapChoices: smallGaps, PCTSteps: 300}, "rpc/plugins/limiter")
	var l *limiter.ConcurrentLimiter
	if timeout > 0 {
		l = limiter.NewConcurrentLimiter(max, timeout)
	} else {
		l = limiter.NewConcurrentLimiter(max)
	}
	inside, peak := 0, 0
	type req struct {
		id       int
		service  time.Duration
		outcome  byte // S, E, P
		ranNext  bool
		err      error
		panicked interface{}
		done     bool
		t0, t1   time.Duration
		stall0   time.Duration
		// cancelAfter > 0: the caller gives up on its own after that long (its context is cancelled, which is not
		// the limiter's timeout): if it was still waiting it must not be admitted, with or without a permit
		cancelAfter time.Duration
		cancelled   bool
	}
	sim.Invariant(func() *verifsim.Failure {
		if inside > max {
			return &verifsim.Failure{Class: "C17:concurrency-bound-exceeded", Detail: fmt.Sprintf("%d requests are executing beyond the limiter, the maximum is %d", inside, max)}
		}
		return nil
	})
	next := func(q *req) core.NextIOHandler {
		return func(ctx context.Context, request []byte) ([]byte, error) {
			q.ranNext = true
			inside++
			if inside > peak {
				peak = inside
			}
			sim.Event("enter", q.id, inside)
			verifsim.Yield(-40)
			if q.service > 0 {
				time.Sleep(q.service)
			}
			verifsim.ForceYield(-41)
			inside--
			sim.Event("leave", q.id, inside)
			switch q.outcome {
			case 'E':
				return nil, errors.New("service error")
			case 'P':
				panic("service panic")
			}
			return []byte("ok"), nil
		}
	}
	var reqs []*req
	finished := 0
	for i := 0; i < ntasks; i++ {
		q := &req{id: i + 1, service: r.PlanDur(0, time.Millisecond, 50*time.Millisecond, time.Second, 10*time.Second), outcome: "SSEP"[r.Plan(4)]}
		if r.Plan(4) == 0 {
			q.cancelAfter = r.PlanDur(time.Millisecond, 5*time.Millisecond, 50*time.Millisecond, time.Second)
		}
		reqs = append(reqs, q)
		delay := r.PlanDur(0, 0, time.Millisecond, 100*time.Millisecond)
		sim.Task(fmt.Sprintf("req%02d", i), func() {
			defer func() {
				if p := recover(); p != nil {
					q.panicked = p
				}
				q.t1 = sim.Now()
				q.done = true
				finished++
				sim.Event("done", q.id, fmt.Sprint(q.err), fmt.Sprint(q.panicked))
			}()
			if delay > 0 {
				time.Sleep(delay)
				verifsim.ForceYield(-42)
			}
			q.t0 = sim.Now()
			q.stall0 = sim.StallTotal()
			ctx := context.Background()
			if q.cancelAfter > 0 {
				var cancel context.CancelFunc
				ctx, cancel = context.WithCancel(ctx)
				tm := time.AfterFunc(q.cancelAfter, func() { q.cancelled = true; cancel() })
				defer tm.Stop()
			}
			_, q.err = l.Handler(ctx, []byte("x"), next(q))
		})
	}
	st := sim.Drive(func() bool { return finished == ntasks })
	if sim.Failure() != nil {
		return
	}
	if st != verifsim.Done {
		if st == verifsim.StepCap {
			r.Res.Verdict = "inconclusive"
			return
		}
		var pend []int
		for _, q := range reqs {
			if !q.done {
				pend = append(pend, q.id)
			}
		}
		r.Fail("C17:limiter-wedged", "status %v: requests %v never got through or out of the limiter (max %d, in use %d, inside %d); parked %v", st, pend, max, l.ConcurrentRequests(), inside, sim.ParkedNames())
		return
	}
	for _, q := range reqs {
		timedOut := q.err != nil && q.err.Error() == core.ErrTimeout.Error() && !q.ranNext
		if q.err != nil && q.err.Error() == core.ErrTimeout.Error() && q.ranNext && q.outcome != 'E' {
			r.Fail("C17:timeout-after-admission", "request %d ran beyond the limiter and still got the limiter's timeout error", q.id)
			return
		}
		if timedOut {
			if timeout == 0 {
				r.Fail("C17:timeout-without-timeout", "request %d was rejected with a timeout although the limiter has none", q.id)
				return
			}
			if waited := q.t1 - q.t0 + (sim.StallTotal() - q.stall0); waited < timeout && !q.cancelled {
				r.Fail("C17:early-timeout", "request %d was rejected after %v, the wait timeout is %v", q.id, q.t1-q.t0, timeout)
				return
			}
		}
		if !q.ranNext && !timedOut && !(q.cancelled && q.err != nil) {
			r.Fail("C17:request-lost", "request %d neither ran nor was rejected: err %v", q.id, q.err)
			return
		}
	}
	if n := l.ConcurrentRequests(); n != 0 || inside != 0 {
		r.Fail("C17:permits-not-returned", "after every request ended (normally, with an error or by panic) %d permits are still in use", n)
		return
	}
	// no wedge: max fresh requests are admitted at once, without waiting
	sim.NoStalls() // a stall longer than the wait timeout would legitimately reject a fresh request
	fresh := 0
	t0 := sim.Now()
	stallF := sim.StallTotal()
	for i := 0; i < max; i++ {
		i := i
		sim.Task(fmt.Sprintf("zfresh%d", i), func() {
			l.Handler(context.Background(), []byte("y"), func(ctx context.Context, request []byte) ([]byte, error) {
				fresh++
				return nil, nil
			})
		})
	}
	sim.Drive(func() bool { return fresh == max })
	if sim.Failure() != nil {
		return
	}
	if fresh != max || sim.Now()-t0 > sim.StallTotal()-stallF {
		r.Fail("C17:limiter-wedged-after", "after everything finished only %d of %d fresh requests were admitted without waiting (fake time passed: %v)", fresh, max, sim.Now()-t0)
	}
	r.Param("peak", peak)
}

type c17adm struct {
	at     time.Duration
	tokens int
	seq    uint64
	task   int
}

func c17Rate(r *Run, concurrent, aligned bool) {
	// (the last three: byte-budget rates whose permit interval is not a whole number of nanoseconds)
	rate := []int64{1, 10, 1000, 100000, 300000000, 600000000, 3000000000}[r.Plan(7)]
	scale := 1
	if rate >= 300000000 {
		scale = []int{1000, 1000000, 20000000}[r.Plan(3)] // requests for kilo- and megabytes
	}
	burst := []float64{1, 2, 5, 100, math.Inf(1)}[r.Plan(5)]
	timeout := r.PlanDur(0, 0, time.Millisecond, time.Second, time.Minute)
	ntasks := 1
	if concurrent {
		ntasks = 2 + r.Plan(3)
	}
	via := r.PlanOf("acquire", "io", "invoke")
	r.Param("rate", rate)
	r.Param("burst", fmt.Sprint(burst))
	r.Param("timeout", timeout.String())
	r.Param("tasks", ntasks)
	r.Param("via", via)
	// no stalls: the bound is about the limiter's admissions, not about scheduling
	// delay between its computation and the caller's next statement
	sim := r.StartSim(verifsim.Config{IdleCap: 100 * time.Hour, StepCap: 100000, GapChoices: smallGaps, PCTSteps: 300}, "rpc/plugins/limiter")
	opts := []limiter.Option{}
	if !math.IsInf(burst, 1) {
		opts = append(opts, limiter.WithMaxPermits(burst))
	}
	if timeout > 0 {
		opts = append(opts, limiter.WithTimeout(timeout))
	}
	unit := time.Duration(float64(time.Second) / float64(rate))
	// let the limiter idle first so that it starts with a full bucket
	idle0 := r.PlanDur(0, unit, 10*unit, 1000*unit)
	l := limiter.NewRateLimiter(rate, opts...)
	var adm []c17adm
	type rej struct {
		at     time.Duration
		tokens int
	}
	var rejs []rej
	var lastActivity time.Duration = -1
	finished := 0
	for t := 0; t < ntasks; t++ {
		t := t
		nops := 1 + r.Plan(12)
		if aligned {
			nops = 12
		}
		type op struct {
			gap    time.Duration
			tokens int
			fails  byte // what the handler behind the limiter does with an admitted request: 0 ok, 'E' error, 'P' panic
		}
		var ops []op
		for i := 0; i < nops; i++ {
			o := op{gap: r.PlanDur(0, 0, unit/3, unit, 3*unit, 20*unit, 500*unit), tokens: scale * r.PlanInt(1, 1, 1, 2, 3, 7, 50), fails: []byte{0, 0, 'E', 'P'}[r.Plan(4)]}
			if scale > 1 {
				o.gap = r.PlanDur(0, 0, time.Microsecond, time.Millisecond, 20*time.Millisecond)
			}
			if aligned {
				// every task asks for one token at the same instants: lost updates add up
				o = op{gap: unit, tokens: 1}
			}
			ops = append(ops, o)
		}
		sim.Task(fmt.Sprintf("task%d", t), func() {
			defer func() { finished++ }()
			if idle0 > 0 {
				time.Sleep(idle0)
				verifsim.ForceYield(-43)
			}
			for _, o := range ops {
				if o.gap > 0 {
					time.Sleep(o.gap)
					verifsim.ForceYield(-44)
				}
				tok := o.tokens
				var err error
				t0 := sim.Now()
				idleFor := t0 - lastActivity
				// (later requests may legitimately find the bucket in debt: every request,
				// admitted or rejected, is charged in full)
				idleBefore := lastActivity < 0
				// a request that reached the handler behind the limiter was admitted, whatever becomes of it there
				passed := false
				downstream := func() error {
					passed = true
					switch o.fails {
					case 'E':
						return errors.New("downstream failure")
					case 'P':
						panic("downstream panic")
					}
					return nil
				}
				func() {
					defer func() {
						if p := recover(); p != nil && !passed {
							panic(p)
						}
					}()
					switch via {
					case "acquire":
						err = l.Acquire(context.Background(), tok)
					case "io":
						_, err = l.IOHandler(context.Background(), make([]byte, tok), func(ctx context.Context, request []byte) ([]byte, error) { return nil, downstream() })
					case "invoke":
						tok = 1
						_, err = l.InvokeHandler(context.Background(), "f", nil, func(ctx context.Context, name string, args []interface{}) ([]interface{}, error) {
							return nil, downstream()
						})
					}
				}()
				now := sim.Now()
				lastActivity = now
				if passed {
					err = nil
				}
				if err != nil {
					rejs = append(rejs, rej{now, tok})
					sim.Event("rejected", t, tok, fmt.Sprint(err))
					if timeout == 0 {
						r.Fail("C17:rate-rejected-without-timeout", "a request for %d tokens was rejected (%v) although no timeout is configured", tok, err)
						return
					}
					if idleBefore && !concurrent && float64(tok) <= burst {
						r.Fail("C17:rate-rejected-with-full-bucket", "a request for %d tokens (burst %v, rate %d/s) was rejected although the limiter had been idle for %v", tok, burst, rate, idleFor)
						return
					}
					if now != t0 {
						r.Fail("C17:rate-rejected-late", "a rejected request waited %v", now-t0)
						return
					}
					continue
				}
				adm = append(adm, c17adm{at: now, tokens: tok, seq: sim.Event("admitted", t, tok), task: t})
			}
		})
	}
	st := sim.Drive(func() bool { return finished == ntasks })
	if sim.Failure() != nil {
		return
	}
	if st != verifsim.Done {
		if st == verifsim.StepCap {
			r.Res.Verdict = "inconclusive"
			return
		}
		r.Fail("C17:rate-limiter-stuck", "status %v; parked %v", st, sim.ParkedNames())
		return
	}
	if math.IsInf(burst, 1) {
		return // no burst to check against
	}
	sort.SliceStable(adm, func(i, j int) bool {
		if adm[i].at != adm[j].at {
			return adm[i].at < adm[j].at
		}
		return adm[i].seq < adm[j].seq
	})
	how := "sequential"
	if concurrent {
		how = "concurrent"
	}
	worstLit := 0.0
	// (the clock has nanosecond resolution: a wait computed as 3331.6 ns is slept as 3331 or 3332, which at 600M
	// tokens/s is worth half a token per admission - two admissions bound a window)
	eps := func(allowed float64) float64 { return 1e-6*allowed + 1e-3 + 2*float64(rate)*1e-9 }
	// (a) admissions at one and the same instant: whatever order they were taken in,
	// all but the first and the last of them were paid for out of at most one burst
	for i := 0; i < len(adm); {
		j := i
		sum, big1, big2 := 0, 0, 0
		for j < len(adm) && adm[j].at == adm[i].at {
			t := adm[j].tokens
			sum += t
			if t > big1 {
				big1, big2 = t, big1
			} else if t > big2 {
				big2 = t
			}
			j++
		}
		if j-i > 2 && float64(sum-big1-big2) > burst+eps(burst)+float64(j-i)*float64(rate)*1e-9 {
			r.Fail("C17:rate-bound-exceeded:"+how, "rate %d/s burst %v: at t=%v %d requests totalling %d tokens were admitted at the same instant; even without its two largest (%d, %d) that is more than one burst", rate, burst, adm[i].at, j-i, sum, big1, big2)
			return
		}
		i = j
	}
	// (b) windows between two distinct instants: what was admitted strictly in between
	// (independent of how admissions at the same instant are ordered)
	for i := range adm {
		for j := i + 1; j < len(adm); j++ {
			if adm[j].at == adm[i].at {
				continue
			}
			elapsed := (adm[j].at - adm[i].at).Seconds()
			allowed := burst + float64(rate)*elapsed
			interior, inclusive, nInside := 0, 0, 0
			for _, a := range adm {
				if a.at > adm[i].at && a.at < adm[j].at {
					interior += a.tokens
					nInside++
				}
				if a.at >= adm[i].at && a.at <= adm[j].at {
					inclusive += a.tokens
				}
			}
			// every admission's wait is slept in whole nanoseconds: up to a nanosecond's worth of tokens each
			if float64(interior) > allowed+eps(allowed)+float64(nInside)*float64(rate)*1e-9 {
				r.Fail("C17:rate-bound-exceeded:"+how, "rate %d/s burst %v: strictly between t=%v and t=%v (%.6fs) %d tokens were admitted; burst + rate x elapsed = %.3f", rate, burst, adm[i].at, adm[j].at, elapsed, interior, allowed)
				return
			}
			if ex := float64(inclusive) - allowed; ex > eps(allowed) && ex > worstLit {
				worstLit = ex
			}
		}
	}
	// single instants, literal reading
	for i := 0; i < len(adm); {
		j, sum := i, 0
		for j < len(adm) && adm[j].at == adm[i].at {
			sum += adm[j].tokens
			j++
		}
		if ex := float64(sum) - burst; ex > eps(burst) && ex > worstLit {
			worstLit = ex
		}
		i = j
	}
	if worstLit > 0 {
		// the literal statement is exceeded, by at most the two end requests: admission on credit
		r.Fail("C17:rate-literal-bound-exceeded-by-end-requests:"+how, "rate %d/s burst %v: some window (end points included) admits %.3f tokens more than burst + rate x elapsed, while everything admitted strictly inside every window stays within the bound: the excess comes from the requests at the window's ends (the bucket is clamped after the request's tokens are subtracted, and a request at an empty bucket is admitted on credit)", rate, burst, worstLit)
	}
}
