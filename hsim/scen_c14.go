package hsim

// C14 Serialization is safe under concurrency; pooled coders leak no state.
//
// Every run is a fresh OS process, so every struct type below is seen by the
// serializer for the first time in every run: several tasks use the same type
// family simultaneously, with statement-level preemption inside the type
// registries, coder pools and struct coders. Each call's output is compared
// with what the same call produces alone (computed afterwards, sequentially).

import (
	"sort"
	"bytes"
	"context"
	"fmt"
	"reflect"
	"strings"
	"time"

	hio "github.com/hprose/hprose-golang/v3/io"
	"github.com/hprose/hprose-golang/v3/rpc/core"
	"verifsim"
)

func init() { scenarios["C14"] = scenC14 }

// ---- type families (named structs never registered explicitly)

type A1Inner struct {
	A int
	B string
}
type A1Outer struct {
	X  int
	In *A1Inner
	Y  string
}
type A2Deep struct {
	O  A1Outer
	Os []*A1Outer
}

type B1Node struct {
	V    int
	Peer *B2Node
}
type B2Node struct {
	S    string
	Back *B1Node
	More []*B1Node
}

type C1Base struct {
	ID   int
	Kind string
}
type C1Derived struct {
	C1Base
	Name string
	Tail *C1Base
}

type D1Tagged struct {
	ID    int64   `hprose:"id"`
	Score float64 `hprose:"score"`
	Skip  string  `hprose:"-"`
	Raw   []byte  `hprose:"raw"`
	Sub   *D1Sub  `hprose:"sub"`
}
type D1Sub struct {
	T time.Time
	N []int
}

type E1Item struct {
	K string
	V float64
}
type E1List struct {
	Items []E1Item
	Ptrs  []*E1Item
	M     map[string]*E1Item
	Arr   [2]E1Item
}

// by value: structs handed to the encoder as values, not pointers (the encoder makes its own addressable copy)
type F1One struct{ V int }
type F1Two struct {
	A int
	B string
}
type F1Holder struct {
	One  F1One
	Two  F1Two
	Ones []F1One
}

type c14family struct {
	name string
	mk   func(n int) interface{} // a value (pointer to struct) parameterised by n
	dest func() interface{}      // pointer to a nil pointer of the same type
}

var c14Families = []c14family{
	{"nested", func(n int) interface{} {
		return &A2Deep{O: A1Outer{X: n, In: &A1Inner{A: n + 1, B: "b"}, Y: "y"}, Os: []*A1Outer{{X: 1, In: &A1Inner{A: 2, B: "q"}, Y: "z"}, {X: n}}}
	}, func() interface{} { return new(*A2Deep) }},
	{"recursive", func(n int) interface{} {
		a := &B1Node{V: n}
		b := &B2Node{S: fmt.Sprint("s", n), Back: a}
		a.Peer = b
		b.More = []*B1Node{a, {V: n + 7}}
		return a
	}, func() interface{} { return new(*B1Node) }},
	{"embedded", func(n int) interface{} {
		return &C1Derived{C1Base: C1Base{ID: n, Kind: "k"}, Name: "derived", Tail: &C1Base{ID: n * 2, Kind: "tail"}}
	}, func() interface{} { return new(*C1Derived) }},
	{"tagged", func(n int) interface{} {
		return &D1Tagged{ID: int64(n), Score: 1.5, Skip: "x", Raw: []byte{1, 2, byte(n)}, Sub: &D1Sub{T: time.Date(2021, 3, 4, 5, 6, 7, 0, time.UTC), N: []int{n, 2, 3}}}
	}, func() interface{} { return new(*D1Tagged) }},
	{"containers", func(n int) interface{} {
		it := &E1Item{K: "only", V: float64(n)}
		return &E1List{Items: []E1Item{{"a", 1}, {"b", float64(n)}}, Ptrs: []*E1Item{it, it}, M: map[string]*E1Item{"k": it}, Arr: [2]E1Item{{"x", 1}, {"y", 2}}}
	}, func() interface{} { return new(*E1List) }},
	{"by-value-one", func(n int) interface{} { return F1One{V: n} }, func() interface{} { return new(F1One) }},
	{"by-value-two", func(n int) interface{} { return F1Two{A: n, B: fmt.Sprint("b", n)} }, func() interface{} { return new(F1Two) }},
	{"by-value-holder", func(n int) interface{} {
		return F1Holder{One: F1One{n}, Two: F1Two{n + 1, "t"}, Ones: []F1One{{n}, {n + 2}}}
	}, func() interface{} { return new(F1Holder) }},
}

type c14op struct {
	task, seq int
	fam       int
	n         int
	kind      string // marshal | marshal-ref | roundtrip | codec
	out       []byte
	err       error
	decoded   interface{}
	decErr    error
	aliasOK   bool
}

func c14run(o *c14op) {
	f := c14Families[o.fam]
	v := f.mk(o.n)
	switch o.kind {
	case "marshal":
		o.out, o.err = hio.Marshal(v)
	case "marshal-ref":
		o.out, o.err = hio.Formatter{Simple: false}.Marshal(v)
	case "roundtrip":
		o.out, o.err = hio.Formatter{Simple: false}.Marshal(v)
		if o.err == nil {
			buf := append([]byte(nil), o.out...)
			d := f.dest()
			o.decErr = hio.Formatter{Simple: false}.Unmarshal(buf, d)
			// overwrite the input: a decoded value must not alias it
			for i := range buf {
				buf[i] = 'X'
			}
			o.decoded = reflect.ValueOf(d).Elem().Interface()
		}
	case "list-into-map":
		// a list on the wire decoded into a map keyed by position: every call has its own key slot
		elems := []interface{}{v, v, v}
		o.out, o.err = hio.Formatter{Simple: false}.Marshal(elems)
		if o.err == nil {
			m := map[int]interface{}{}
			o.decErr = hio.Formatter{Simple: false}.Unmarshal(append([]byte(nil), o.out...), &m)
			var keys []int
			for k := range m {
				keys = append(keys, k)
			}
			sort.Ints(keys)
			o.decoded = fmt.Sprint(keys)
		}
	case "codec":
		client := core.NewClient("mock://c14")
		cc := core.NewClientContext()
		cc.Init(client)
		o.out, o.err = client.Codec.Encode("fn", []interface{}{v, o.n, "s"}, cc)
		o.out = append([]byte(nil), o.out...)
	}
	o.out = append([]byte(nil), o.out...)
}

func scenC14(r *Run) {
	mode := []string{"first-use", "first-use", "pool-state"}[r.Index%3]
	if v, ok := r.Opt["mode"]; ok {
		mode = v
	}
	r.Param("mode", mode)
	if mode == "pool-state" {
		c14Pool(r)
		return
	}
	ntasks := 2 + r.Plan(3)
	r.Param("tasks", ntasks)
	sim := r.StartSim(verifsim.Config{IdleCap: time.Hour, StepCap: 400000, PCTSteps: 600}, "io/", "rpc/core")
	// every task walks the families in its own order, so that several tasks meet on
	// the first use of one family
	var all []*c14op
	fin := 0
	for t := 0; t < ntasks; t++ {
		t := t
		var ops []*c14op
		start := r.Plan(len(c14Families))
		nops := 2 + r.Plan(5)
		for i := 0; i < nops; i++ {
			fam := (start + i) % len(c14Families)
			if r.PlanBool(3) {
				fam = r.Plan(len(c14Families))
			}
			kind := r.PlanOf("marshal", "marshal-ref", "roundtrip", "roundtrip", "codec", "list-into-map")
			if c14Families[fam].name == "recursive" && (kind == "marshal" || kind == "codec") {
				kind = "marshal-ref" // a cyclic graph can only be written in reference mode
			}
			ops = append(ops, &c14op{task: t, seq: i, fam: fam, n: 10*t + i, kind: kind})
		}
		all = append(all, ops...)
		sim.Task(fmt.Sprintf("task%d", t), func() {
			defer func() {
				if p := recover(); p != nil {
					r.Fail("C14:panic-under-concurrency:"+hproseFrame()+":"+normPanic(p), "task %d: %v", t, p)
				}
				fin++
			}()
			for _, o := range ops {
				sim.Event("op", o.task, o.seq, c14Families[o.fam].name, o.kind)
				c14run(o)
			}
		})
	}
	st := sim.Drive(func() bool { return fin == ntasks })
	if sim.Failure() != nil {
		return
	}
	if st != verifsim.Done {
		if st == verifsim.StepCap {
			r.Res.Verdict = "inconclusive"
			return
		}
		r.Fail("C14:stuck", "status %v; parked %v", st, sim.ParkedNames())
		return
	}
	sim.Stop() // the reference results are computed alone, without the scheduler
	for _, o := range all {
		ref := &c14op{fam: o.fam, n: o.n, kind: o.kind}
		c14run(ref)
		fam := c14Families[o.fam].name
		if (o.err == nil) != (ref.err == nil) {
			r.Fail("C14:error-differs:"+fam+":"+o.kind, "task %d op %d: error %v, alone %v", o.task, o.seq, o.err, ref.err)
			return
		}
		if !bytes.Equal(o.out, ref.out) {
			r.Fail("C14:output-differs:"+fam+":"+o.kind, "task %d op %d (%s of family %s, concurrently with %d other tasks, types never used before in this process):\n concurrent: %q\n alone:      %q", o.task, o.seq, o.kind, fam, ntasks-1, o.out, ref.out)
			return
		}
		if o.kind == "list-into-map" && (fmt.Sprint(o.decoded) != "[0 1 2]" || o.decErr != nil) && o.err == nil {
			r.Fail("C14:decoded-value-differs:"+fam+":list-into-map", "task %d op %d: a list of three %s values decoded into map[int]interface{} has the keys %v (error %v), expected [0 1 2]", o.task, o.seq, fam, o.decoded, o.decErr)
			return
		}
		if o.kind == "roundtrip" {
			if (o.decErr == nil) != (ref.decErr == nil) {
				r.Fail("C14:decode-error-differs:"+fam, "task %d op %d: decode error %v, alone %v", o.task, o.seq, o.decErr, ref.decErr)
				return
			}
			if !reflect.DeepEqual(o.decoded, ref.decoded) {
				r.Fail("C14:decoded-value-differs:"+fam, "task %d op %d: decoded %s, alone %s", o.task, o.seq, clipV(o.decoded), clipV(ref.decoded))
				return
			}
			want := c14Families[o.fam].mk(o.n)
			if o.decErr == nil && !c14equal(o.decoded, want) {
				r.Fail("C14:roundtrip-differs:"+fam, "task %d op %d: decoded %s from %q, encoded value was %s (the input buffer was overwritten after decoding)", o.task, o.seq, clipV(o.decoded), clip(o.out, 200), clipV(want))
				return
			}
		}
	}
}

// c14equal compares a decoded value with the original up to the format's
// normalisations (skipped fields).
func c14equal(got, want interface{}) bool {
	if d, ok := want.(*D1Tagged); ok {
		c := *d
		c.Skip = ""
		want = &c
	}
	return fmt.Sprintf("%#v", deref(got)) == fmt.Sprintf("%#v", deref(want)) || reflect.DeepEqual(got, want) || renderDeep(got) == renderDeep(want)
}

func deref(v interface{}) interface{} { return v }

// renderDeep renders a pointer graph structurally (pointers followed, cycles cut).
func renderDeep(v interface{}) string {
	var sb strings.Builder
	seen := map[uintptr]bool{}
	var walk func(rv reflect.Value, depth int)
	walk = func(rv reflect.Value, depth int) {
		if depth > 12 {
			sb.WriteString("...")
			return
		}
		switch rv.Kind() {
		case reflect.Ptr:
			if rv.IsNil() {
				sb.WriteString("nil")
				return
			}
			if seen[rv.Pointer()] {
				sb.WriteString("<cycle>")
				return
			}
			seen[rv.Pointer()] = true
			sb.WriteString("&")
			walk(rv.Elem(), depth+1)
			delete(seen, rv.Pointer())
		case reflect.Struct:
			sb.WriteString("{")
			for i := 0; i < rv.NumField(); i++ {
				sb.WriteString(rv.Type().Field(i).Name + ":")
				walk(rv.Field(i), depth+1)
				sb.WriteString(" ")
			}
			sb.WriteString("}")
		case reflect.Slice, reflect.Array:
			sb.WriteString("[")
			for i := 0; i < rv.Len(); i++ {
				walk(rv.Index(i), depth+1)
				sb.WriteString(" ")
			}
			sb.WriteString("]")
		case reflect.Map:
			sb.WriteString("map[")
			for _, k := range rv.MapKeys() {
				sb.WriteString(fmt.Sprint(k.Interface()) + ":")
				walk(rv.MapIndex(k), depth+1)
			}
			sb.WriteString("]")
		case reflect.Interface:
			if rv.IsNil() {
				sb.WriteString("nil")
			} else {
				walk(rv.Elem(), depth+1)
			}
		default:
			sb.WriteString(fmt.Sprint(rv.Interface()))
		}
	}
	walk(reflect.ValueOf(v), 0)
	return sb.String()
}

// c14Pool: sequences on the pooled encoders and decoders, alternating modes,
// options, failing and succeeding inputs, from 1-3 tasks; each result must equal
// the result of the same call alone.
func c14Pool(r *Run) {
	ntasks := 1 + r.Plan(3)
	r.Param("tasks", ntasks)
	sim := r.StartSim(verifsim.Config{IdleCap: time.Hour, StepCap: 400000, PCTSteps: 600}, "io/", "rpc/core")
	type pop struct {
		kind string
		arg  int
		out  string
	}
	// one service and one client codec shared by all tasks: their codecs take decoders and encoders from the pools
	svc := core.NewService()
	svc.AddFunction(func(x int, s string) string { return fmt.Sprintf("%s/%d", s, x*2) }, "tag")
	svc.AddFunction(func(a, b string) string { return a + "+" + b }, "same2")
	// (a service context belongs to one request)
	newSvcCtx := func() context.Context { return core.WithContext(context.Background(), core.NewServiceContext(svc)) }
	ccl := core.NewClient("mock://c14shared")
	run := func(p *pop) {
		switch p.kind {
		case "service-bad-request":
			// requests the service codec refuses in different places: each must get its error, and the pooled
			// decoder it used must come back to the pool exactly once and clean
			bad := [][]byte{[]byte("GET / HTTP/1.1\r\n\r\n"), []byte(`Cs3"tag"a9999{i1;s1"x"}z`), []byte(`Cs3"tag"a-1{}z`), []byte(`Cs3"tag"a2{i1;`),
				[]byte(`Cs3"tag"a2{s1"x"s1"y"}z`), []byte(`Cs5"nosuch"a0{}z`), []byte(`Hm1{s1"k"`), []byte(`Cz`), []byte(`Cs3"tag"`)}[p.arg%9]
			resp, err := svc.Handle(newSvcCtx(), bad)
			p.out = fmt.Sprintf("%q %v", resp, err)
		case "service-good-request":
			resp, err := svc.Handle(newSvcCtx(), []byte(fmt.Sprintf(`Cs3"tag"a2{i%d;s4"t%03d"}z`, 1000+p.arg, p.arg)))
			p.out = fmt.Sprintf("%q %v", resp, err)
		case "client-bad-response":
			bad := [][]byte{[]byte("HTTP/1.1 502 Bad Gateway\r\n"), []byte(`Ra9999{1;}z`), []byte(`Rs5"ab`), []byte(`Es3"bad"z`), {}, []byte(`Rr5;z`)}[p.arg%6]
			cc := core.NewClientContext()
			cc.Init(ccl)
			res, err := ccl.Codec.Decode(bad, cc)
			p.out = fmt.Sprintf("%#v %v", res, err != nil)
		case "marshal-bad-big":
			// an encode that fails after it has produced a lot: the pooled encoder goes back with nothing of it
			// (struct fields of unsupported types are skipped silently; a list element of such a type is an error)
			_, err := hio.Marshal([]interface{}{strings.Repeat("x", 70000+p.arg), make(chan int)})
			p.out = fmt.Sprint(err != nil)
		case "number-as-string":
			// a number on the wire decoded where a string is expected: the string must own its bytes
			in := []byte(fmt.Sprintf(`a4{i%d;l%d;d%d.25;s3"abc"}`, 1000+p.arg, 99999999000+int64(p.arg), p.arg))
			var v []string
			err := hio.Unmarshal(in, &v)
			for i := range in {
				in[i] = 'X'
			}
			var w string
			rd := strings.NewReader(fmt.Sprintf(`i%d;`, 7000+p.arg))
			e2 := hio.UnmarshalFromReader(rd, &w)
			var w2 string
			e3 := hio.UnmarshalFromReader(strings.NewReader(`i11111111;`), &w2)
			p.out = fmt.Sprintf("%q %v %q %v %q %v", v, err, w, e2, w2, e3)
		case "client-response-with-headers-and-references":
			// the header map is decoded by the same pooled decoder right before the body: its keys and values must
			// not be what the body's references point at
			sc := core.NewServiceContext(svc)
			sc.ResponseHeaders().Set("traceId", fmt.Sprintf("t%03d", p.arg))
			sc.ResponseHeaders().Set("region", "eu")
			dup := fmt.Sprintf("hdr%03d", p.arg)
			resp, err := svc.Codec.Encode([]string{dup, dup, "x", dup}, sc)
			if err != nil || resp[0] != 'H' {
				p.out = fmt.Sprintf("harness: %q %v", resp, err)
				return
			}
			cc := core.NewClientContext()
			cc.Init(ccl)
			cc.ReturnType = []reflect.Type{reflect.TypeOf([]string(nil))}
			res, err := ccl.Codec.Decode(append([]byte(nil), resp...), cc)
			p.out = fmt.Sprintf("%#v %v", res, err)
		case "service-simple-request":
			// what a client configured for simple mode sends: a header saying so, which switches the pooled decoder
			// that reads the request into simple mode for that one use
			scl := core.NewClient("mock://c14simple")
			scl.Codec = core.NewClientCodec(core.WithSimple(true))
			cc := core.NewClientContext()
			cc.Init(scl)
			req, err := scl.Codec.Encode("tag", []interface{}{p.arg, "simple"}, cc)
			if err != nil || !strings.Contains(string(req), "simple") {
				p.out = fmt.Sprintf("harness: request %q %v", req, err)
				return
			}
			resp, err := svc.Handle(newSvcCtx(), append([]byte(nil), req...))
			p.out = fmt.Sprintf("%q %v", resp, err)
		case "client-simple-response":
			ssvc := core.NewService()
			ssvc.Codec = core.NewServiceCodec(core.WithSimple(true))
			sc := core.NewServiceContext(ssvc)
			resp, err := ssvc.Codec.Encode([]string{"one", "two"}, sc)
			if err != nil {
				p.out = fmt.Sprint("harness: ", err)
				return
			}
			cc := core.NewClientContext()
			cc.Init(ccl)
			cc.ReturnType = []reflect.Type{reflect.TypeOf([]string(nil))}
			res, err := ccl.Codec.Decode(append([]byte(nil), resp...), cc)
			p.out = fmt.Sprintf("%q %#v %v", resp, res, err)
		case "service-request-with-references":
			// a request in which a repeated value travels as a reference (what a default, reference-mode client sends):
			// the codec takes a pooled decoder as it comes and relies on its being in reference mode
			cc := core.NewClientContext()
			cc.Init(ccl)
			dup := fmt.Sprintf("dup%03d", p.arg)
			req, err := ccl.Codec.Encode("same2", []interface{}{dup, dup}, cc)
			if err != nil || !strings.Contains(string(req), "r") {
				p.out = fmt.Sprintf("harness: request %q %v", req, err)
				return
			}
			resp, err := svc.Handle(newSvcCtx(), append([]byte(nil), req...))
			p.out = fmt.Sprintf("%q %v", resp, err)
		case "client-response-with-references":
			sc := core.NewServiceContext(svc)
			dup := fmt.Sprintf("res%03d", p.arg)
			resp, err := svc.Codec.Encode([]string{dup, dup, dup}, sc)
			if err != nil {
				p.out = fmt.Sprint("harness: ", err)
				return
			}
			cc := core.NewClientContext()
			cc.Init(ccl)
			cc.ReturnType = []reflect.Type{reflect.TypeOf([]string(nil))}
			res, err := ccl.Codec.Decode(append([]byte(nil), resp...), cc)
			p.out = fmt.Sprintf("%#v %v", res, err)
		case "client-good-response":
			cc := core.NewClientContext()
			cc.Init(ccl)
			cc.ReturnType = []reflect.Type{reflect.TypeOf(""), reflect.TypeOf(0)}
			res, err := ccl.Codec.Decode([]byte(fmt.Sprintf(`Ra2{s4"r%03d"i%d;}z`, p.arg, 7000+p.arg)), cc)
			p.out = fmt.Sprintf("%#v %v", res, err)
		case "marshal-simple":
			b, err := hio.Marshal([]string{"dup", "dup", fmt.Sprint(p.arg)})
			p.out = fmt.Sprintf("%q %v", b, err)
		case "marshal-ref":
			b, err := hio.Formatter{Simple: false}.Marshal([]string{"dup", "dup", fmt.Sprint(p.arg)})
			p.out = fmt.Sprintf("%q %v", b, err)
		case "unmarshal-bad":
			var v []int
			err := hio.Unmarshal([]byte(`a3{1;"x`), &v)
			p.out = fmt.Sprintf("%v %v", v, err != nil)
		case "unmarshal-good":
			var v []interface{}
			err := hio.Unmarshal([]byte(fmt.Sprintf(`a3{i%d;s3"abc"d1.5;}`, 100+p.arg)), &v)
			p.out = fmt.Sprintf("%#v %v", v, err)
		case "unmarshal-ref":
			var v []string
			err := hio.Formatter{Simple: false}.Unmarshal([]byte(`a3{s3"abc"r1;r1;}`), &v)
			p.out = fmt.Sprintf("%#v %v", v, err)
		case "unmarshal-longtype":
			// decoder options of one use must not be visible in the next: a plain
			// Unmarshal into interface{} yields the default integer type
			f := hio.Formatter{Simple: true, LongType: hio.LongTypeInt64}
			var v, w interface{}
			e1 := f.Unmarshal([]byte(`l1234567890123;`), &v)
			e2 := hio.Unmarshal([]byte(`l123456789012;`), &w)
			p.out = fmt.Sprintf("%T %v %T %v", v, e1, w, e2)
		case "codec-with-all-options":
			// a codec with every decoder option away from its default uses a pooled decoder
			cl := core.NewClient("mock://c14p")
			cl.Codec = core.NewClientCodec(core.WithSimple(true), core.WithLongType(hio.LongTypeInt64), core.WithRealType(hio.RealTypeFloat32),
				core.WithMapType(hio.MapTypeSIMap), core.WithStructType(hio.StructTypeValue), core.WithListType(hio.ListTypeSlice))
			cc := core.NewClientContext()
			cc.Init(cl)
			res, err := cl.Codec.Decode([]byte(`Ra3{1;2;3;}z`), cc)
			p.out = fmt.Sprintf("%#v %v", res, err)
			svc := core.NewService()
			svc.Codec = core.NewServiceCodec(core.WithLongType(hio.LongTypeUint), core.WithMapType(hio.MapTypeSIMap), core.WithListType(hio.ListTypeSlice), core.WithStructType(hio.StructTypeValue))
			svc.AddFunction(func(x interface{}) interface{} { return x }, "id")
			sc := core.NewServiceContext(svc)
			_, args, e2 := svc.Codec.Decode([]byte(`Cs2"id"a1{a2{1;2;}}z`), sc)
			p.out += fmt.Sprintf(" | %#v %v", args, e2)
		case "probe-defaults":
			// what a plain Unmarshal into interface{} yields must not depend on who used the pooled decoder before
			var l, n, f, m interface{}
			e1 := hio.Unmarshal([]byte(`a3{1;2;3;}`), &l)
			e2 := hio.Unmarshal([]byte(`l123456789012;`), &n)
			e3 := hio.Unmarshal([]byte(`d1.5;`), &f)
			e4 := hio.Unmarshal([]byte(`m1{s1"k"1}`), &m)
			var l2 interface{}
			e5 := hio.Formatter{Simple: false}.Unmarshal([]byte(`a2{s3"abc"r1;}`), &l2)
			p.out = fmt.Sprintf("%T %T %T %T %T %v %v %v %v %v", l, n, f, m, l2, e1, e2, e3, e4, e5)
		case "decoder-reuse":
			d := hio.GetDecoder().ResetBytes([]byte(`a2{s3"abc"r0`)).Simple(false)
			var v []string
			d.Decode(&v)
			hio.FreeDecoder(d)
			d2 := hio.GetDecoder().ResetBytes([]byte(`s2"hi"`))
			var s string
			d2.Decode(&s)
			p.out = fmt.Sprintf("%q %v simple=%v", s, d2.Error, d2.IsSimple())
			hio.FreeDecoder(d2)
		}
	}
	kinds := []string{"marshal-simple", "marshal-ref", "unmarshal-bad", "unmarshal-good", "unmarshal-ref", "unmarshal-longtype", "decoder-reuse",
		"codec-with-all-options", "probe-defaults", "probe-defaults",
		"service-bad-request", "service-good-request", "service-good-request", "client-bad-response", "client-good-response",
		"service-request-with-references", "client-response-with-references", "service-simple-request", "client-simple-response",
		"number-as-string", "client-response-with-headers-and-references", "marshal-bad-big"}
	var all []*pop
	fin := 0
	for t := 0; t < ntasks; t++ {
		var ops []*pop
		for i, n := 0, 3+r.Plan(8); i < n; i++ {
			ops = append(ops, &pop{kind: kinds[r.Plan(len(kinds))], arg: 10*t + i})
		}
		all = append(all, ops...)
		t := t
		sim.Task(fmt.Sprintf("task%d", t), func() {
			defer func() {
				if p := recover(); p != nil {
					r.Fail("C14:panic-under-concurrency:"+hproseFrame()+":"+normPanic(p), "task %d: %v", t, p)
				}
				fin++
			}()
			for _, p := range ops {
				sim.Event("op", t, p.kind)
				run(p)
			}
		})
	}
	st := sim.Drive(func() bool { return fin == ntasks })
	if sim.Failure() != nil {
		return
	}
	if st != verifsim.Done {
		r.Fail("C14:stuck", "status %v; parked %v", st, sim.ParkedNames())
		return
	}
	sim.Stop()
	for _, p := range all {
		// these two have a known right answer: the comparison with "the same call alone" below runs on the same
		// pools and would be fooled by a decoder that came back from an earlier use in the wrong mode
		want := ""
		switch p.kind {
		case "service-request-with-references":
			d := fmt.Sprintf("dup%03d", p.arg)
			want = fmt.Sprintf("%q %v", []byte(fmt.Sprintf(`Rs%d"%s+%s"z`, 2*len(d)+1, d, d)), nil)
		case "client-response-with-references":
			d := fmt.Sprintf("res%03d", p.arg)
			want = fmt.Sprintf("%#v %v", []interface{}{[]string{d, d, d}}, nil)
		case "client-response-with-headers-and-references":
			d := fmt.Sprintf("hdr%03d", p.arg)
			want = fmt.Sprintf("%#v %v", []interface{}{[]string{d, d, "x", d}}, nil)
		case "marshal-simple", "marshal-ref":
			// an encoder that never saw the pool
			e := hio.NewEncoder(nil).Simple(p.kind == "marshal-simple")
			err := e.Encode([]string{"dup", "dup", fmt.Sprint(p.arg)})
			want = fmt.Sprintf("%q %v", e.Bytes(), err)
		case "number-as-string":
			want = fmt.Sprintf("%q %v %q %v %q %v", []string{fmt.Sprint(1000 + p.arg), fmt.Sprint(99999999000 + int64(p.arg)), fmt.Sprintf("%d.25", p.arg), "abc"}, nil, fmt.Sprint(7000+p.arg), nil, "11111111", nil)
		}
		if want != "" && p.out != want {
			r.Fail("C14:pooled-coder-state-leaks:"+p.kind, "%s(%d) returned %s, expected %s", p.kind, p.arg, p.out, want)
			return
		}
		ref := &pop{kind: p.kind, arg: p.arg}
		run(ref)
		if p.out != ref.out {
			r.Fail("C14:pooled-coder-state-leaks:"+p.kind, "%s(%d) returned %s in the sequence, %s alone", p.kind, p.arg, p.out, ref.out)
			return
		}
	}
}
