package hsim

import (
	"bufio"
	"encoding/json"
	"fmt"
	"os"
	"regexp"
	"sort"
	"strconv"
	"strings"
	"testing"
	"testing/synctest"
	"time"

	"verifsim"
)

// RunResult is what a worker reports for one simulated run.
type RunResult struct {
	Prop       string                 `json:"prop"`
	Run        int                    `json:"run"`
	Seed       uint64                 `json:"seed"`
	Verdict    string                 `json:"verdict"` // ok | violation | inconclusive
	Class      string                 `json:"class,omitempty"`
	Detail     string                 `json:"detail,omitempty"`
	Plan       []int                  `json:"plan,omitempty"`
	Sched      []int                  `json:"sched,omitempty"`
	LogHash    string                 `json:"log_hash"`
	Stats      map[string]int         `json:"stats,omitempty"`
	Faults     map[string]int         `json:"faults,omitempty"`
	Probes     map[string]int         `json:"probes,omitempty"`
	FakeNS     int64                  `json:"fake_ns"`
	Params     map[string]interface{} `json:"params,omitempty"`
	Trace      []string               `json:"trace,omitempty"`
	Nontrivial bool                   `json:"nontrivial"`
	Notes      []string               `json:"notes,omitempty"`
	Cases      int                    `json:"cases,omitempty"`
	More       []Viol                 `json:"more,omitempty"`
	// Findings: violations of listed (known) classes seen in this run, class -> count.
	Extra map[string]interface{} `json:"extra,omitempty"`
}

// Viol is an additional violation class seen in the same run.
type Viol struct {
	Class  string `json:"class"`
	Detail string `json:"detail"`
	Count  int    `json:"count,omitempty"`
}

// Run is the context a scenario executes in.
type Run struct {
	T     *testing.T
	Prop  string
	Index int
	Tape  *verifsim.Tape
	Sim   *verifsim.Sim
	Res   *RunResult
	Trace bool
	Sites *SiteTable
	// Mode "fixed" lets a scenario be forced into a sub-configuration (sensitivity tests).
	Opt map[string]string
	// genShared: the value generator produced a pointer graph with sharing or a cycle.
	genShared bool
}

// Scenario runs one simulated run; it records violations with r.Sim.Fail / r.Fail.
type Scenario func(r *Run)

var scenarios = map[string]Scenario{}

// batchProps: properties whose cases share no process-global state that matters
// (pure CPU code under a simulated reader or byte faults): one worker process
// executes many run indices, each with its own tape.
var batchProps = map[string]bool{}

var hexRe2 = regexp.MustCompile(`0x[0-9a-f]+|\b\d+\b`)

// Plan helpers (plan stream).
func (r *Run) Plan(n int) int                            { return r.Tape.Choose(verifsim.StreamPlan, n) }
func (r *Run) PlanBool(den int) bool                     { return den > 1 && r.Plan(den) == den-1 }
func (r *Run) PlanOf(xs ...string) string                { return xs[r.Plan(len(xs))] }
func (r *Run) PlanInt(xs ...int) int                     { return xs[r.Plan(len(xs))] }
func (r *Run) PlanDur(xs ...time.Duration) time.Duration { return xs[r.Plan(len(xs))] }
func (r *Run) Param(k string, v interface{}) {
	if r.Res.Params == nil {
		r.Res.Params = map[string]interface{}{}
	}
	r.Res.Params[k] = v
	// also on disk at once: if the process dies the driver still knows what ran
	if out := os.Getenv("VERIF_OUT"); out != "" {
		if f, err := os.OpenFile(out+".params", os.O_APPEND|os.O_CREATE|os.O_WRONLY, 0o644); err == nil {
			fmt.Fprintf(f, "%s=%v\n", k, v)
			f.Close()
		}
	}
}
func (r *Run) Note(f string, a ...interface{}) {
	r.Res.Notes = append(r.Res.Notes, fmt.Sprintf(f, a...))
}

// Fail records a violation (first one wins).
func (r *Run) Fail(class, f string, a ...interface{}) {
	if r.Sim != nil {
		r.Sim.Fail(class, fmt.Sprintf(f, a...))
		return
	}
	if r.Res.Verdict != "violation" {
		r.Res.Verdict = "violation"
		r.Res.Class = class
		r.Res.Detail = fmt.Sprintf(f, a...)
	}
}

// SiteTable maps instrumentation sites to source positions.
type SiteTable struct {
	Pos  []string // index = site number: file:line
	Desc []string // enclosing function, or "go <callee>" for a go statement
}

func LoadSites(path string) *SiteTable {
	st := &SiteTable{Pos: []string{""}, Desc: []string{""}}
	f, err := os.Open(path)
	if err != nil {
		return st
	}
	defer f.Close()
	sc := bufio.NewScanner(f)
	for sc.Scan() {
		parts := strings.SplitN(sc.Text(), "\t", 3)
		if len(parts) < 2 {
			continue
		}
		n, _ := strconv.Atoi(parts[0])
		for len(st.Pos) <= n {
			st.Pos = append(st.Pos, "")
			st.Desc = append(st.Desc, "")
		}
		st.Pos[n] = parts[1]
		if len(parts) == 3 {
			st.Desc[n] = parts[2]
		}
	}
	return st
}

// TaskOrigin renders the creation site of a task created by instrumented code
// ("a/12#0/340#1" -> description of site 340).
func (st *SiteTable) TaskOrigin(name string) string {
	i := strings.LastIndex(name, "/")
	if i < 0 {
		return name
	}
	last := name[i+1:]
	if j := strings.Index(last, "#"); j >= 0 {
		last = last[:j]
	}
	n, err := strconv.Atoi(last)
	if err != nil || n <= 0 || n >= len(st.Desc) {
		return name
	}
	d := st.Desc[n]
	p := st.Pos[n]
	if k := strings.LastIndex(p, ":"); k >= 0 {
		p = p[:k]
	}
	return p + ":" + d
}

// OffMask returns a SiteOff mask that disables every site whose file does not
// match one of the enabled prefixes.
func (st *SiteTable) OffMask(enabledPrefixes ...string) []bool {
	off := make([]bool, len(st.Pos))
	for i, p := range st.Pos {
		on := false
		for _, pre := range enabledPrefixes {
			if strings.HasPrefix(p, pre) {
				on = true
				break
			}
		}
		off[i] = !on
	}
	return off
}

// StartSim draws the scheduling policy from the plan stream and starts the
// simulation on the calling goroutine (inside the bubble).
// smallGaps: preemption gaps for scenarios whose yield points are confined to one small package (a plugin): with
// so few yields per run, short quanta and PCT change points drawn from a short range are what makes two tasks
// meet inside a window of two or three statements.
var smallGaps = []int{0, 1, 1, 1, 2, 2, 3, 5, 8}

func (r *Run) StartSim(cfg verifsim.Config, enabledPrefixes ...string) *verifsim.Sim {
	if len(enabledPrefixes) == 0 {
		enabledPrefixes = []string{"rpc/"}
	}
	if v, ok := r.Opt["policy"]; ok {
		cfg.Policy, _ = strconv.Atoi(v)
		r.Plan(3)
	} else {
		cfg.Policy = r.Plan(3)
	}
	if cfg.Policy == verifsim.PolicyPCT {
		if cfg.PCTDepth == 0 {
			cfg.PCTDepth = 1 + r.Plan(3)
		}
		if cfg.PCTSteps == 0 {
			cfg.PCTSteps = 1500
		}
	}
	cfg.Trace = r.Trace
	cfg.NSites = len(r.Sites.Pos)
	cfg.SiteOff = r.Sites.OffMask(enabledPrefixes...)
	r.Param("policy", cfg.Policy)
	r.Sim = verifsim.Start(r.Tape, cfg, synctest.Wait)
	return r.Sim
}

// finish fills the result from the simulation state.
func (r *Run) finish() {
	res := r.Res
	if s := r.Sim; s != nil {
		if f := s.Failure(); f != nil && res.Verdict != "violation" {
			res.Verdict = "violation"
			res.Class = f.Class
			res.Detail = f.Detail
		}
		res.LogHash = s.LogHash()
		res.Stats = s.Stats()
		res.Faults = s.Faults
		res.Probes = s.Probes
		res.FakeNS = int64(s.Now())
		if r.Trace {
			res.Trace = s.Lines
		}
		st := res.Stats
		if st["task_switches"] > 1 || len(res.Faults) > 0 || res.Cases > 1 {
			res.Nontrivial = true
		}
	}
	if res.Verdict == "" {
		res.Verdict = "ok"
	}
	res.Plan = r.Tape.Consumed(verifsim.StreamPlan)
	res.Sched = r.Tape.Consumed(verifsim.StreamSched)
}

func writeResult(res *RunResult) {
	out := os.Getenv("VERIF_OUT")
	b, _ := json.Marshal(res)
	if out == "" {
		fmt.Fprintln(os.Stderr, string(b))
		return
	}
	tmp := out + ".tmp"
	if err := os.WriteFile(tmp, append(b, '\n'), 0o644); err == nil {
		os.Rename(tmp, out)
	}
}

func sortedKeys(m map[string]int) []string {
	var ks []string
	for k := range m {
		ks = append(ks, k)
	}
	sort.Strings(ks)
	return ks
}
