package hsim

// C10 Every call terminates: response, error, timeout, cancellation or abort.

import (
	"context"
	"fmt"
	"sort"
	"strings"
	"time"

	"github.com/hprose/hprose-golang/v3/rpc/core"
	"verifsim"
)

func init() { scenarios["C10"] = scenC10 }

type c10call struct {
	id         int
	nonce      int
	start      time.Duration
	stall0     time.Duration
	timeout    time.Duration
	cancel     context.CancelFunc
	cancelled  bool // cancel() has returned
	done       bool
	end        time.Duration
	res        []interface{}
	err        error
	slowMs     int
	startedSeq uint64
	task       string
	inIO       bool // the request has been handed to the client's IO stage
	atAbort    bool // was blocked inside the IO stage when Abort was called
}

func c10Kinds(r *Run) []string {
	if v, ok := r.Opt["kind"]; ok {
		return []string{v}
	}
	return AllKinds
}

func scenC10(r *Run) {
	if _, forced := r.Opt["kind"]; (r.Index%16 == 7 && !forced) || r.Opt["mode"] == "ws-close-frame" {
		c10WSCloseFrame(r)
		return
	}
	if _, forced := r.Opt["kind"]; (r.Index%16 == 11 && !forced) || r.Opt["mode"] == "fanout-silent" {
		scenC10Fanout(r)
		return
	}
	kinds := c10Kinds(r)
	kind := kinds[r.Plan(len(kinds))]
	mode := r.PlanOf("loss", "loss", "silence")
	var timeout time.Duration
	var stalls []time.Duration
	if mode == "loss" {
		timeout = r.PlanDur(0, 0, 300*time.Millisecond, 5*time.Second)
		if r.PlanBool(3) {
			stalls = []time.Duration{time.Millisecond, 40 * time.Millisecond}
		}
	} else {
		timeout = r.PlanDur(300*time.Millisecond, 5*time.Second)
		if r.PlanBool(2) {
			stalls = []time.Duration{timeout / 3, timeout}
		}
	}
	ncallers := 1 + r.Plan(4)
	perCaller := 1 + r.Plan(2)
	warm := r.PlanBool(2)
	r.Param("kind", kind)
	r.Param("mode", mode)
	r.Param("timeout", timeout.String())
	r.Param("callers", ncallers)
	r.Param("warm", warm)

	RegisterKind(kind)
	sim := r.StartSim(verifsim.Config{StallChoices: stalls, IdleCap: 10 * time.Minute, StepCap: 60000})
	service := core.NewService()
	service.AddFunction(func(x int) int { return x*2 + 1 }, "dbl")
	service.AddFunction(func(x int, ms int) int {
		time.Sleep(time.Duration(ms) * time.Millisecond)
		return x*2 + 1
	}, "slow")
	fx := NewFixture(r, kind, service)
	net := fx.Net
	client := fx.NewClient()
	client.Timeout = timeout
	acts := NewActions(sim)
	type callKey struct{}
	client.Use(func(ctx context.Context, request []byte, next core.NextIOHandler) ([]byte, error) {
		if c, ok := ctx.Value(callKey{}).(*c10call); ok {
			c.inIO = true
		}
		return next(ctx, request)
	})

	// ---- fault plan (one or two faults per run)
	nf := 1 + r.Plan(2)
	var faultDesc []string
	lossExecuted := false
	var calls []*c10call
	started := func() int {
		n := 0
		for _, c := range calls {
			if c.startedSeq != 0 {
				n++
			}
		}
		return n
	}
	wantAbort, wantCancel, wantSlow := false, false, false
	offsets := []int{0, 1, 2, 4, 8, 11, 12, 13, 16, 20, 24, 30, 40, 60, 90, 130, 200}
	if strings.Contains(kind, "http") || strings.HasPrefix(kind, "websocket") {
		offsets = []int{0, 1, 5, 17, 40, 80, 120, 150, 170, 190, 200, 210, 220, 230, 240, 260, 300, 400}
	}
	// structured plan: first something that makes calls fail or stay pending,
	// then (optionally) something that must end pending calls
	nf = 2
	for i := 0; i < nf; i++ {
		var k string
		switch {
		case mode == "loss" && i == 0:
			k = r.PlanOf("close", "reset", "close", "reset", "dialfail", "none", "abort", "cancel", "writeerr")
		case mode == "loss":
			k = r.PlanOf("none", "abort", "cancel", "close", "reset")
		case i == 0:
			k = r.PlanOf("silence", "slow", "silence", "slow", "drop", "lossy", "accepterr", "writeerr", "freeze")
		default:
			k = r.PlanOf("none", "abort", "cancel", "abort", "cancel", "slow", "silence")
		}
		if k == "none" {
			continue
		}
		if (k == "writeerr" || k == "freeze") && kind == "udp" {
			k = "close"
		}
		if !fx.HasConns() {
			switch k {
			case "close", "reset", "writeerr", "freeze":
				k = "abort"
			case "silence", "drop", "lossy":
				if kind != "udp" {
					k = "slow"
				}
			}
		} else if k == "drop" || k == "lossy" {
			k = "silence"
		}
		switch k {
		case "close", "reset", "silence", "writeerr", "freeze":
			// (freeze: the peer stops reading at that point; what is written piles up until a write blocks)
			if kind == "udp" {
				dir := r.PlanOf("c2s", "s2c")
				from := r.Plan(4)
				fx.UDP.SilenceFrom[dir] = from
				faultDesc = append(faultDesc, fmt.Sprintf("udp-silence %s from #%d", dir, from))
				continue
			}
			dir := r.PlanOf("c2s", "s2c")
			if k == "writeerr" && mode == "loss" {
				// a failing write on the server's side is the server's business (under fasthttp third-party code
				// that may keep the connection open, which then is a silent peer): where calls must end without
				// a timer, only the client's own writes fail
				dir = "c2s"
			}
			off := offsets[r.Plan(len(offsets))]
			conn := r.Plan(2)
			net.AddFault(conn, dir, off, k)
			faultDesc = append(faultDesc, fmt.Sprintf("%s conn%d %s@%d", k, conn, dir, off))
			continue
		case "accepterr":
			// the server's next accepts fail with a temporary error: it must back off and go on accepting
			// (not under fasthttp: its accept loop - third-party code, not hprose's - treats a temporary accept
			// error as permanent in this version and stops serving)
			if !fx.HasConns() || warm || kind == "fasthttp" || kind == "websocket-fast" {
				k = "slow"
				wantSlow = true
				break
			}
			nerr := 1 + r.Plan(3)
			net.AcceptTempErrors(nerr)
			faultDesc = append(faultDesc, fmt.Sprintf("accept-temp-error x%d", nerr))
			continue
		case "lossy":
			// a lossy datagram network: every delivery may be lost or duplicated, and datagrams overtake one another
			fx.UDP.LossDen = 2 + r.Plan(4)
			fx.UDP.DupDen = 3 + r.Plan(4)
			fx.UDP.Reorder = true
			faultDesc = append(faultDesc, fmt.Sprintf("udp-lossy loss 1/%d dup 1/%d reorder", fx.UDP.LossDen, fx.UDP.DupDen))
			continue
		case "drop":
			dir := r.PlanOf("c2s", "s2c")
			nth := r.Plan(5)
			if fx.UDP.DropNth[dir] == nil {
				fx.UDP.DropNth[dir] = map[int]bool{}
			}
			fx.UDP.DropNth[dir][nth] = true
			faultDesc = append(faultDesc, fmt.Sprintf("udp-drop %s #%d", dir, nth))
			continue
		case "abort":
			wantAbort = true
		case "cancel":
			wantCancel = true
		case "dialfail":
			if warm || kind == "mock" {
				k = "abort"
				wantAbort = true
			} else {
				net.DialFail = 1 + r.Plan(2)
				fx.UDP.DialFail = net.DialFail
			}
		case "slow":
			wantSlow = true
		}
		faultDesc = append(faultDesc, k)
	}
	r.Param("faults", strings.Join(faultDesc, ","))
	net.OnFault = func(id int, dir, kind string) {
		if kind != "silence" {
			lossExecuted = true
		}
		sim.Event("fault", kind, id, dir)
	}
	abortAfter := r.Plan(120)
	cancelAfter := r.Plan(120)

	aborted := false
	var abortSeq uint64
	_ = abortSeq
	// ---- oracle pieces evaluated at quiescent points
	phase := "warm"
	sim.OnQuiescent(func() {
		if fx.InFlight() {
			return
		}
		now := sim.Now()
		for _, c := range calls {
			if c.startedSeq == 0 || c.done {
				continue
			}
			where := ""
			if cn, _ := fx.Pending(); fx.IsMux() && cn <= 0 {
				where = ":in-dial"
			}
			if aborted && c.atAbort {
				r.Fail("C10:not-returned-after-abort:"+kind+where, "call %d (timeout %v) was blocked inside the transport when Client.Abort was called and is still pending at a quiescent point after Abort returned", c.id, c.timeout)
				return
			}
			if c.cancelled {
				r.Fail("C10:not-returned-after-cancel:"+kind+where, "call %d (timeout %v) still pending at a quiescent point after its context was cancelled", c.id, c.timeout)
				return
			}
			if c.timeout > 0 && now-c.start > c.timeout+(sim.StallTotal()-c.stall0) {
				r.Fail("C10:deadline-missed:"+kind, "call %d pending %v after start, timeout %v", c.id, now-c.start, c.timeout)
				return
			}
			if mode == "loss" && c.slowMs == 0 {
				what := "no-fault"
				if lossExecuted {
					what = "after-loss"
				}
				r.Fail("C10:pending-at-quiescence:"+what+":"+kind, "call %d (timeout %v) is still waiting although nothing is runnable or in flight: it can only return through a timer, or never (phase %s, faults %v)", c.id, c.timeout, phase, faultDesc)
				return
			}
		}
	})

	doCall := func(c *c10call, ctx context.Context) {
		c.stall0 = sim.StallTotal()
		c.start = sim.Now()
		c.startedSeq = sim.Event("invoke", c.id)
		name, args := "dbl", []interface{}{c.nonce}
		if c.slowMs > 0 {
			name, args = "slow", []interface{}{c.nonce, c.slowMs}
		}
		res, err := client.InvokeContext(context.WithValue(ctx, callKey{}, c), name, args)
		c.end = sim.Now()
		c.res, c.err, c.done = res, err, true
		sim.Event("return", c.id, fmt.Sprint(res), fmt.Sprint(err))
		if err == nil {
			if len(res) != 1 || fmt.Sprint(res[0]) != fmt.Sprint(c.nonce*2+1) {
				r.Fail("C10:wrong-result:"+kind, "call %d nonce %d returned %v", c.id, c.nonce, res)
			}
		}
		if c.timeout > 0 {
			if over := (c.end - c.start) - c.timeout - (sim.StallTotal() - c.stall0); over > 0 {
				r.Fail("C10:late-return:"+kind, "call %d returned %v after its start with timeout %v (stalls excluded): %v late", c.id, c.end-c.start, c.timeout, over)
			}
		}
	}

	clientTasks := func() []string {
		var out []string
		for _, n := range sim.LiveTasks("go") {
			if !strings.HasPrefix(n, "srv") {
				out = append(out, n)
			}
		}
		return out
	}

	// ---- phase 0: optional warm-up call on a healthy connection
	baseline := -1
	var baseOrigins map[string]int
	if warm {
		saved := net.PlanFaults
		savedDial := net.DialFail
		savedUDP := [2]interface{}{fx.UDP.DropNth, fx.UDP.SilenceFrom}
		net.PlanFaults = map[int]map[string][]*linkFault{}
		net.DialFail = 0
		fx.UDP.DropNth, fx.UDP.SilenceFrom = map[string]map[int]bool{}, map[string]int{}
		savedLossy := [2]int{fx.UDP.LossDen, fx.UDP.DupDen}
		savedReorder := fx.UDP.Reorder
		fx.UDP.LossDen, fx.UDP.DupDen, fx.UDP.Reorder = 0, 0, false
		// the warm-up is not the subject: give it a timeout no stall can reach
		client.Timeout = time.Hour
		wc := &c10call{id: 0, nonce: 7, timeout: time.Hour}
		calls = append(calls, wc)
		wc.task = "awarm"
		sim.Task("awarm", func() { doCall(wc, context.Background()) })
		st := sim.Drive(func() bool { return wc.done })
		if st != verifsim.Done || wc.err != nil {
			if sim.Failure() == nil {
				r.Fail("C10:healthy-call-failed:"+kind, "warm-up call on a fault-free network: status %v err %v", st, wc.err)
			}
			return
		}
		sim.Drive(func() bool { return false }) // to quiescence
		if sim.Failure() != nil {
			return
		}
		baseline = len(clientTasks())
		baseOrigins = originCounts(r, clientTasks())
		client.Timeout = timeout
		// the planned faults apply to the existing connection from now on
		net.PlanFaults = saved
		net.DialFail = savedDial
		net.ArmExisting()
		fx.UDP.DropNth, fx.UDP.SilenceFrom = savedUDP[0].(map[string]map[int]bool), savedUDP[1].(map[string]int)
		fx.UDP.LossDen, fx.UDP.DupDen, fx.UDP.Reorder = savedLossy[0], savedLossy[1], savedReorder
		fx.UDP.RebaseCounters()
	}

	// ---- phase 1: callers under faults
	phase = "faults"
	nextID := 1
	var cancels []*c10call
	for i := 0; i < ncallers; i++ {
		var mine []*c10call
		for j := 0; j < perCaller; j++ {
			c := &c10call{id: nextID, nonce: 100 + nextID*3, timeout: timeout}
			nextID++
			if wantSlow && (j == 0 && i == 0 || r.PlanBool(2)) {
				c.slowMs = r.PlanInt(50, 1000, 20000)
			}
			mine = append(mine, c)
			calls = append(calls, c)
		}
		cancellable := wantCancel && (i == 0 || r.PlanBool(2))
		for _, c := range mine {
			c.task = fmt.Sprintf("caller%02d", i)
		}
		sim.Task(fmt.Sprintf("caller%02d", i), func() {
			for _, c := range mine {
				ctx := context.Background()
				if cancellable {
					var cancel context.CancelFunc
					ctx, cancel = context.WithCancel(ctx)
					c.cancel = cancel
					cancels = append(cancels, c)
				}
				doCall(c, ctx)
			}
		})
	}
	if wantAbort {
		acts.Add("abort", func() bool { return started() > btoi(warm) && sim.Decisions() >= abortAfter }, func() {
			sim.Task("zabort", func() {
				abortSeq = sim.Event("abort-begin")
				for _, c := range calls {
					if c.startedSeq != 0 && !c.done && c.inIO && sim.TaskState(c.task) == "blocked" {
						c.atAbort = true
					}
				}
				client.Abort()
				lossExecuted = true
				aborted = true
				sim.Fault("abort")
				sim.Event("abort-end")
			})
		})
	}
	if wantCancel {
		acts.Add("cancel", func() bool { return len(cancels) > 0 && sim.Decisions() >= cancelAfter }, func() {
			cs := append([]*c10call(nil), cancels...)
			sim.Task("zcancel", func() {
				for _, c := range cs {
					if c.done {
						continue
					}
					c.cancel()
					c.cancelled = true
					sim.Fault("cancel")
					sim.Event("cancelled", c.id)
				}
			})
		})
	}
	allDone := func() bool {
		for _, c := range calls {
			if !c.done {
				return false
			}
		}
		return true
	}
	st := sim.Drive(allDone)
	if sim.Failure() != nil {
		return
	}
	if st != verifsim.Done {
		var pend []string
		for _, c := range calls {
			if !c.done {
				pend = append(pend, fmt.Sprintf("call%d(timeout=%v,started=%v)", c.id, c.timeout, c.startedSeq != 0))
			}
		}
		if st == verifsim.StepCap {
			r.Res.Verdict = "inconclusive"
			r.Note("step cap reached in phase 1: %v", pend)
			return
		}
		r.Fail("C10:never-returns:"+kind, "run went idle (no runnable task, no message in flight, no timer within %v) with calls pending: %v; parked: %v", 10*time.Minute, pend, sim.ParkedNames())
		return
	}
	acts.Clear()

	// ---- phase 2: the client stays usable
	phase = "after"
	fx.Heal()
	// let the consequences of the last fault settle (connection teardown)
	sim.Drive(func() bool { return false })
	if sim.Failure() != nil {
		return
	}
	client.Timeout = 30 * time.Second
	// No stalls from here on: stalls adding up to more than the fresh call's timeout would legitimately time it out
	// (seen once in a million runs: 38 s of stalls inside one call), and that is not what "stays usable" is about.
	sim.NoStalls()
	fresh := &c10call{id: nextID, nonce: 9001, timeout: 30 * time.Second}
	calls = append(calls, fresh)
	sim.Task("yfresh", func() { doCall(fresh, context.Background()) })
	st = sim.Drive(func() bool { return fresh.done })
	if sim.Failure() != nil {
		return
	}
	if st != verifsim.Done || fresh.err != nil {
		r.Fail("C10:unusable-after-failure:"+kind, "after faults %v a fresh call on the same client, with the server reachable, ended with status %v err %v", faultDesc, st, fresh.err)
		return
	}
	sim.Drive(func() bool { return false })
	if sim.Failure() != nil {
		return
	}
	if _, p := fx.Pending(); p > 0 {
		r.Fail("C10:pending-entries-left:"+kind, "%d pending entries although no call is in flight", p)
		return
	}
	if baseline >= 0 && mode == "loss" {
		if now := clientTasks(); len(now) > baseline {
			var extra []string
			for o, n := range originCounts(r, now) {
				if n > baseOrigins[o] {
					extra = append(extra, o)
				}
			}
			sort.Strings(extra)
			r.Fail("C10:goroutines-accumulate:"+kind+":"+strings.Join(extra, "+"), "client-side goroutines after one healthy call: %d; after faults %v and one more healthy call: %d (%v)", baseline, faultDesc, len(now), now)
			return
		}
	}

	// ---- phase 3: shut everything down; nothing created by hprose may stay alive
	phase = "shutdown"
	shut := false
	sim.Task("zzshutdown", func() { fx.Shutdown(); shut = true })
	st = sim.Drive(func() bool { return shut && len(sim.LiveTasks("go")) == 0 })
	if sim.Failure() != nil {
		return
	}
	if left := sim.LiveTasks("go"); len(left) > 0 || !shut {
		r.Fail("C10:leak-after-shutdown:"+kind+":"+originsOf(r, left), "after Abort, server stop and closing every connection (status %v, shutdown returned %v) these goroutines are still alive: %v; parked: %v", st, shut, left, sim.ParkedNames())
	}
}

func btoi(b bool) int {
	if b {
		return 1
	}
	return 0
}

// originsOf renders the distinct creation sites of a set of tasks.
func originsOf(r *Run, names []string) string {
	set := map[string]bool{}
	for _, n := range names {
		set[r.Sites.TaskOrigin(n)] = true
	}
	var out []string
	for k := range set {
		out = append(out, k)
	}
	sort.Strings(out)
	return strings.Join(out, "+")
}

func originCounts(r *Run, names []string) map[string]int {
	m := map[string]int{}
	for _, n := range names {
		m[r.Sites.TaskOrigin(n)]++
	}
	return m
}
