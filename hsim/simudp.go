package hsim

// Simulated datagram sockets. Every datagram in flight is a controller option
// (so reordering is just picking another one); loss, duplication and
// truncation are drawn when a datagram is delivered, if the run enables them.

import (
	"fmt"
	"net"
	"sync"
	"syscall"
	"time"

	"verifsim"
)

type pkt struct {
	data []byte
	from *net.UDPAddr
	to   *udpEnd
	name string
	dir  string
	seq  int
}

type udpEnd struct {
	mu     sync.Mutex
	q      []pkt
	closed bool
	rd     chan struct{}
	addr   *net.UDPAddr
	net    *UDPNet
}

// UDPNet is the simulated datagram network of one run.
type UDPNet struct {
	mu       sync.Mutex
	inflight []pkt
	nextPort int
	sim      *verifsim.Sim
	sent     map[string]int // datagrams sent per direction
	// LossDen > 0: a delivered datagram is dropped with probability 1/LossDen,
	// DupDen likewise for duplication.
	LossDen, DupDen int
	// DupDir, when set, restricts duplication to that direction ("c2s" or "s2c").
	DupDir string
	// Reorder: offer every in-flight datagram (not only the oldest per direction).
	Reorder bool
	// DropNth[dir][n]: the n-th datagram (0-based) of that direction is dropped.
	DropNth map[string]map[int]bool
	// SilenceFrom[dir] = n: datagram n and all later ones of that direction vanish.
	SilenceFrom map[string]int
	// Mangle, when set, may replace a datagram's bytes on delivery (C12).
	Mangle   func(dir string, seq int, b []byte) []byte
	servers  []*UDPServer
	clients  []*UDPClient
	DialFail int
}

func NewUDPNet(sim *verifsim.Sim) *UDPNet {
	n := &UDPNet{sim: sim, sent: map[string]int{}, DropNth: map[string]map[int]bool{}, SilenceFrom: map[string]int{}}
	sim.AddSource(n)
	return n
}

func (n *UDPNet) newEnd(ip net.IP, port int) *udpEnd {
	n.mu.Lock()
	if port == 0 {
		n.nextPort++
		port = 40000 + n.nextPort
	}
	n.mu.Unlock()
	return &udpEnd{rd: make(chan struct{}, 1), addr: &net.UDPAddr{IP: ip, Port: port}, net: n}
}

func (e *udpEnd) wake() {
	select {
	case e.rd <- struct{}{}:
	default:
	}
}

// a closed datagram socket reports *net.OpError with a nil Addr: the only error
// on which the udp handler's loops stop (any other one is logged and retried).
func (e *udpEnd) closedErr(op string) error {
	return &net.OpError{Op: op, Net: "udp", Source: e.addr, Addr: nil, Err: net.ErrClosed}
}

func (e *udpEnd) recv(b []byte) (int, *net.UDPAddr, error) {
	for {
		e.mu.Lock()
		if e.closed {
			e.mu.Unlock()
			return 0, nil, e.closedErr("read")
		}
		if len(e.q) > 0 {
			p := e.q[0]
			e.q = e.q[1:]
			e.mu.Unlock()
			n := copy(b, p.data) // excess is discarded, like a real datagram socket
			return n, p.from, nil
		}
		e.mu.Unlock()
		<-e.rd
	}
}

func (e *udpEnd) send(b []byte, to *udpEnd, dir string) (int, error) {
	e.mu.Lock()
	c := e.closed
	e.mu.Unlock()
	if c {
		return 0, e.closedErr("write")
	}
	if len(b) > 65507 {
		return 0, &net.OpError{Op: "write", Net: "udp", Source: e.addr, Addr: to.addr, Err: syscall.EMSGSIZE}
	}
	d := make([]byte, len(b))
	copy(d, b)
	n := e.net
	n.mu.Lock()
	seq := n.sent[dir]
	n.sent[dir] = seq + 1
	drop := n.DropNth[dir][seq]
	if from, ok := n.SilenceFrom[dir]; ok && seq >= from {
		drop = true
	}
	if !drop {
		n.inflight = append(n.inflight, pkt{data: d, from: e.addr, to: to, dir: dir, seq: seq,
			name: fmt.Sprintf("%s#%d %s>%s", dir, seq, e.addr, to.addr)})
	}
	n.mu.Unlock()
	if drop {
		n.sim.Fault("datagram-planned-drop")
	}
	return len(b), nil
}

func (e *udpEnd) Close() error {
	e.mu.Lock()
	e.closed = true
	e.mu.Unlock()
	e.wake()
	return nil
}

// Options implements verifsim.Source.
func (n *UDPNet) Options(now time.Time) []verifsim.Option {
	n.mu.Lock()
	defer n.mu.Unlock()
	var out []verifsim.Option
	seenDir := map[string]bool{}
	for _, p := range n.inflight {
		p := p
		key := p.dir + p.to.addr.String() + p.from.String()
		if !n.Reorder && seenDir[key] {
			continue
		}
		if seenDir[key] {
			// an out-of-order delivery
			out = append(out, verifsim.Option{Label: "deliver-ooo " + p.name, Do: func() { n.sim.Fault("datagram-reorder"); n.deliver(p) }})
			continue
		}
		seenDir[key] = true
		out = append(out, verifsim.Option{Label: "deliver " + p.name, Do: func() { n.deliver(p) }})
	}
	return out
}

func (n *UDPNet) NextDue(now time.Time) (time.Time, bool) { return time.Time{}, false }

func (n *UDPNet) deliver(p pkt) {
	n.mu.Lock()
	for i := range n.inflight {
		if n.inflight[i].dir == p.dir && n.inflight[i].seq == p.seq && n.inflight[i].to == p.to {
			n.inflight = append(n.inflight[:i], n.inflight[i+1:]...)
			break
		}
	}
	n.mu.Unlock()
	if n.LossDen > 1 && n.sim.Choose(n.LossDen) == n.LossDen-1 {
		n.sim.Fault("datagram-loss")
		n.sim.Logf("lost %s", p.name)
		return
	}
	copies := 1
	if n.DupDen > 1 && (n.DupDir == "" || n.DupDir == p.dir) && n.sim.Choose(n.DupDen) == n.DupDen-1 {
		n.sim.Fault("datagram-dup")
		copies = 2
	}
	if n.Mangle != nil {
		p.data = n.Mangle(p.dir, p.seq, p.data)
	}
	for i := 0; i < copies; i++ {
		p.to.mu.Lock()
		p.to.q = append(p.to.q, p)
		p.to.mu.Unlock()
	}
	n.sim.Logf("delivered %s len=%d x%d", p.name, len(p.data), copies)
	p.to.wake()
}

// InFlight reports whether datagrams are still undelivered.
func (n *UDPNet) InFlight() bool {
	n.mu.Lock()
	defer n.mu.Unlock()
	return len(n.inflight) > 0
}

// UDPServer implements udp.VerifUDPConn.
type UDPServer struct {
	*udpEnd
	mu   sync.Mutex
	ends map[string]*udpEnd
}

func (s *UDPServer) ReadFromUDP(b []byte) (int, *net.UDPAddr, error) { return s.recv(b) }
func (s *UDPServer) WriteToUDP(b []byte, addr *net.UDPAddr) (int, error) {
	s.mu.Lock()
	to := s.ends[addr.String()]
	s.mu.Unlock()
	if to == nil {
		return len(b), nil // nobody there: silently lost
	}
	return s.send(b, to, "s2c")
}
func (s *UDPServer) Read(b []byte) (int, error)         { n, _, err := s.recv(b); return n, err }
func (s *UDPServer) Write(b []byte) (int, error)        { return 0, syscall.EDESTADDRREQ }
func (s *UDPServer) LocalAddr() net.Addr                { return s.addr }
func (s *UDPServer) RemoteAddr() net.Addr               { return nil }
func (s *UDPServer) SetDeadline(t time.Time) error      { return nil }
func (s *UDPServer) SetReadDeadline(t time.Time) error  { return nil }
func (s *UDPServer) SetWriteDeadline(t time.Time) error { return nil }

// UDPClient is a connected client socket.
type UDPClient struct {
	*udpEnd
	srv *UDPServer
}

func (c *UDPClient) Read(b []byte) (int, error)         { n, _, err := c.recv(b); return n, err }
func (c *UDPClient) Write(b []byte) (int, error)        { return c.send(b, c.srv.udpEnd, "c2s") }
func (c *UDPClient) LocalAddr() net.Addr                { return c.addr }
func (c *UDPClient) RemoteAddr() net.Addr               { return c.srv.addr }
func (c *UDPClient) SetDeadline(t time.Time) error      { return nil }
func (c *UDPClient) SetReadDeadline(t time.Time) error  { return nil }
func (c *UDPClient) SetWriteDeadline(t time.Time) error { return nil }

func (n *UDPNet) Listen(port int) *UDPServer {
	s := &UDPServer{udpEnd: n.newEnd(net.IPv4(10, 0, 0, 1), port), ends: map[string]*udpEnd{}}
	n.mu.Lock()
	n.servers = append(n.servers, s)
	n.mu.Unlock()
	return s
}

func (n *UDPNet) Dial(srv *UDPServer) (*UDPClient, error) {
	n.mu.Lock()
	if n.DialFail > 0 {
		n.DialFail--
		n.mu.Unlock()
		n.sim.Fault("dial-failure")
		return nil, &net.OpError{Op: "dial", Net: "udp", Err: syscall.ENETUNREACH}
	}
	n.mu.Unlock()
	c := &UDPClient{udpEnd: n.newEnd(net.IPv4(10, 0, 0, 2), 0), srv: srv}
	srv.mu.Lock()
	srv.ends[c.addr.String()] = c.udpEnd
	srv.mu.Unlock()
	n.mu.Lock()
	n.clients = append(n.clients, c)
	n.mu.Unlock()
	return c, nil
}

// CloseAll closes every socket.
func (n *UDPNet) CloseAll() {
	n.mu.Lock()
	ss := append([]*UDPServer(nil), n.servers...)
	cs := append([]*UDPClient(nil), n.clients...)
	n.inflight = nil
	n.mu.Unlock()
	for _, s := range ss {
		s.Close()
	}
	for _, c := range cs {
		c.Close()
	}
}

// Heal ends every loss, silence and mangling.
func (n *UDPNet) Heal() {
	n.mu.Lock()
	n.LossDen, n.DupDen, n.Reorder = 0, 0, false
	n.DropNth = map[string]map[int]bool{}
	n.SilenceFrom = map[string]int{}
	n.Mangle = nil
	n.DialFail = 0
	n.mu.Unlock()
}

// RebaseCounters makes the per-direction datagram numbers count from now.
func (n *UDPNet) RebaseCounters() {
	n.mu.Lock()
	n.sent = map[string]int{}
	n.mu.Unlock()
}
