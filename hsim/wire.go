package hsim

// The harness's own frame codec, written against the layouts restated in
// DESIGN.md 3.5 (not by importing the library's makeHeader/parseHeader, whose
// errors would otherwise be shared by both sides).
//
// socket: 12-byte header: bytes 0-3 CRC-32 (IEEE) of bytes 4-11, big-endian;
//         bytes 4-7 body length, big-endian, top bit always set; bytes 8-11
//         request index, big-endian, top bit set only in an error response.
// udp:    one frame per datagram, 8-byte header: bytes 0-3 CRC-32 of bytes 4-7;
//         bytes 4-5 body length; bytes 6-7 index, top bit = error.
// websocket: one binary message: 4-byte big-endian index (top bit = error), body.

import (
	"encoding/binary"
	"fmt"
	"hash/crc32"
	"io"
	"regexp"
	"strconv"
)

func sockHeader(length int, index uint32) []byte {
	h := make([]byte, 12)
	binary.BigEndian.PutUint32(h[4:], uint32(length)|0x80000000)
	binary.BigEndian.PutUint32(h[8:], index)
	binary.BigEndian.PutUint32(h[0:], crc32.ChecksumIEEE(h[4:12]))
	return h
}

func sockFrame(index uint32, body []byte) []byte {
	return append(sockHeader(len(body), index), body...)
}

// readSockFrame reads one frame; ok=false if the CRC does not match.
func readSockFrame(r io.Reader) (index uint32, body []byte, ok bool, err error) {
	h := make([]byte, 12)
	if _, err = io.ReadFull(r, h); err != nil {
		return
	}
	if crc32.ChecksumIEEE(h[4:12]) != binary.BigEndian.Uint32(h[0:]) {
		return 0, nil, false, nil
	}
	n := int(binary.BigEndian.Uint32(h[4:]) & 0x7fffffff)
	index = binary.BigEndian.Uint32(h[8:])
	body = make([]byte, n)
	if _, err = io.ReadFull(r, body); err != nil {
		return
	}
	return index, body, true, nil
}

func udpHeader(length int, index uint16) []byte {
	h := make([]byte, 8)
	binary.BigEndian.PutUint16(h[4:], uint16(length))
	binary.BigEndian.PutUint16(h[6:], index)
	binary.BigEndian.PutUint32(h[0:], crc32.ChecksumIEEE(h[4:8]))
	return h
}

func udpFrame(index uint16, body []byte) []byte {
	return append(udpHeader(len(body), index), body...)
}

func parseUDPFrame(d []byte) (index uint16, body []byte, ok bool) {
	if len(d) < 8 || crc32.ChecksumIEEE(d[4:8]) != binary.BigEndian.Uint32(d[0:]) {
		return 0, nil, false
	}
	n := int(binary.BigEndian.Uint16(d[4:]))
	index = binary.BigEndian.Uint16(d[6:])
	if 8+n > len(d) {
		return index, d[8:], false
	}
	return index, d[8 : 8+n], true
}

// hprose RPC bodies used by the scripted peers: a call of one integer argument
// and a reply carrying one integer.
var callRe = regexp.MustCompile(`^C(?:s(\d+)"([^"]*)"|u(.))a1\{(?:i(-?\d+);|l(-?\d+);|(\d))\}z$`)

func parseIntCall(body []byte) (name string, arg int, ok bool) {
	m := callRe.FindSubmatch(body)
	if m == nil {
		return "", 0, false
	}
	name = string(m[2])
	if name == "" {
		name = string(m[3])
	}
	for _, g := range m[4:] {
		if len(g) > 0 {
			arg, _ = strconv.Atoi(string(g))
			return name, arg, true
		}
	}
	return name, 0, false
}

func intReply(v int) []byte {
	if v >= 0 && v <= 9 {
		return []byte(fmt.Sprintf("R%dz", v))
	}
	return []byte(fmt.Sprintf("Ri%d;z", v))
}
