package hsim

// C18 Load balancers always pick a valid server and honour their policy.

import (
	"context"
	"errors"
	"fmt"
	"net/url"
	"sort"
	"strings"
	"time"

	"github.com/hprose/hprose-golang/v3/rpc/core"
	lb "github.com/hprose/hprose-golang/v3/rpc/plugins/loadbalance"
	"verifsim"
)

func init() { scenarios["C18"] = scenC18 }

var c18Kinds = []string{"rr", "random", "leastactive", "wrr", "nginx", "wrandom", "wleastactive"}

func c18weighted(k string) bool {
	return k == "wrr" || k == "nginx" || k == "wrandom" || k == "wleastactive"
}

// c18vectors enumerates all weight vectors with 1..4 servers and weights 1..4.
func c18vectors() [][]int {
	var out [][]int
	var rec func(prefix []int, n int)
	rec = func(prefix []int, n int) {
		if len(prefix) == n {
			out = append(out, append([]int(nil), prefix...))
			return
		}
		for w := 1; w <= 4; w++ {
			rec(append(prefix, w), n)
		}
	}
	for n := 1; n <= 4; n++ {
		rec(nil, n)
	}
	return out
}

type c18call struct {
	id                int
	url               string
	outcome           byte
	invSeq, enterSeq  uint64
	leaveSeq, finSeq  uint64
	entered, finished bool
	gate              chan struct{}
	err               error
	panicked          interface{}
}

type c18env struct {
	r        *Run
	sim      *verifsim.Sim
	kind     string
	urls     []string
	weights  []int
	handler  core.IOHandler
	client   *core.Client
	inflight map[string]int
	snaps    []c18snap // in-flight vectors over time
	calls    []*c18call
	gated    bool
}

type c18snap struct {
	seq uint64
	v   map[string]int
}

type c18key struct{}

func (e *c18env) snapshot() {
	v := map[string]int{}
	for k, x := range e.inflight {
		v[k] = x
	}
	e.snaps = append(e.snaps, c18snap{e.sim.Seq(), v})
}

func newC18env(r *Run, sim *verifsim.Sim, kind string, weights []int) *c18env {
	e := &c18env{r: r, sim: sim, kind: kind, weights: weights, inflight: map[string]int{}}
	uris := map[string]int{}
	for i, w := range weights {
		u := fmt.Sprintf("mock://srv%d", i)
		e.urls = append(e.urls, u)
		uris[u] = w
	}
	e.client = core.NewClient(e.urls...)
	e.client.Timeout = time.Hour
	switch kind {
	case "rr":
		e.handler = lb.NewRoundRobinLoadBalance().Handler
	case "random":
		e.handler = lb.NewRandomLoadBalance().Handler
	case "leastactive":
		e.handler = lb.NewLeastActiveLoadBalance().Handler
	case "wrr":
		e.handler = lb.NewWeightedRoundRobinLoadBalance(uris).Handler
	case "nginx":
		e.handler = lb.NewNginxRoundRobinLoadBalance(uris).Handler
	case "wrandom":
		e.handler = lb.NewWeightedRandomLoadBalance(uris).Handler
	case "wleastactive":
		e.handler = lb.NewWeightedLeastActiveLoadBalance(uris).Handler
	}
	e.snapshot()
	return e
}

// next is the scripted innermost handler: records the target, optionally parks.
func (e *c18env) next(ctx context.Context, request []byte) ([]byte, error) {
	c := ctx.Value(c18key{}).(*c18call)
	c.url = core.GetClientContext(ctx).URL.String()
	e.inflight[c.url]++
	c.enterSeq = e.sim.Event("pick", c.id, c.url)
	c.entered = true
	e.snapshot()
	if c.gate != nil {
		<-c.gate
		verifsim.ForceYield(-50)
	} else {
		verifsim.Yield(-51)
	}
	e.inflight[c.url]--
	c.leaveSeq = e.sim.Event("leave", c.id, c.url, string(c.outcome))
	e.snapshot()
	switch c.outcome {
	case 'E':
		return nil, errors.New("server failure")
	case 'P':
		panic("server panic")
	}
	return []byte("Rnz"), nil
}

// do performs one call through the balancer.
func (e *c18env) do(c *c18call) {
	defer func() {
		if p := recover(); p != nil {
			c.panicked = p
		}
		c.finSeq = e.sim.Event("returned", c.id)
		c.finished = true
	}()
	cc := core.NewClientContext()
	cc.Init(e.client)
	ctx := context.WithValue(core.WithContext(context.Background(), cc), c18key{}, c)
	c.invSeq = e.sim.Event("call", c.id)
	_, c.err = e.handler(ctx, []byte("req"), e.next)
}

func (e *c18env) valid(c *c18call) bool {
	if !c.entered {
		return true
	}
	return contains(e.urls, c.url)
}

func scenC18(r *Run) {
	modes := []string{"cycle", "membership", "leastactive", "failure-aware", "cycle-conc", "membership", "leastactive-conc", "cycle", "resize"}
	mode := modes[r.Index%len(modes)]
	sub := r.Index / len(modes)
	if v, ok := r.Opt["mode"]; ok {
		mode = v
		sub = r.Index
	}
	r.Param("mode", mode)
	sim := r.StartSim(verifsim.Config{IdleCap: time.Hour, StepCap: 300000, GapChoices: smallGaps, PCTSteps: 300}, "rpc/plugins/loadbalance")
	vecs := c18vectors()
	fail := func(class, f string, a ...interface{}) { r.Fail("C18:"+class, f, a...) }
	switch mode {
	case "cycle":
		kinds := []string{"rr", "wrr", "nginx"}
		kind := kinds[sub%3]
		w := vecs[(sub/3)%len(vecs)]
		r.Param("kind", kind)
		r.Param("weights", fmt.Sprint(w))
		e := newC18env(r, sim, kind, w)
		n := len(w)
		cycle := n
		want := map[string]int{}
		g := 0
		for _, x := range w {
			g = gcd(g, x)
		}
		sum := 0
		for _, x := range w {
			sum += x
		}
		for i, u := range e.urls {
			switch kind {
			case "rr":
				want[u] = 1
			case "wrr":
				want[u] = w[i] / g
				cycle = sum / g
			case "nginx":
				want[u] = w[i]
				cycle = sum
			}
		}
		done := false
		sim.Task("picks", func() {
			defer func() { done = true }()
			id := 0
			for cyc := 0; cyc < 3; cyc++ {
				got := map[string]int{}
				var order []string
				for k := 0; k < cycle; k++ {
					id++
					c := &c18call{id: id, outcome: 'S'}
					e.do(c)
					r.Res.Cases++
					if c.panicked != nil || c.err != nil {
						fail("balancer-failed:"+kind, "weights %v: pick %d failed: err %v panic %v", w, id, c.err, c.panicked)
						return
					}
					if !e.valid(c) {
						fail("invalid-server:"+kind, "weights %v: pick %d went to %q", w, id, c.url)
						return
					}
					got[c.url]++
					order = append(order, strings.TrimPrefix(c.url, "mock://"))
				}
				for _, u := range e.urls {
					if got[u] != want[u] {
						fail("cycle-proportions:"+kind, "weights %v, cycle %d of %d picks: %s was picked %d times, expected %d (picks: %v)", w, cyc+1, cycle, u, got[u], want[u], order)
						return
					}
				}
			}
		})
		sim.Drive(func() bool { return done })
	case "cycle-conc":
		// The same proportions with concurrent callers: every selection is one atomic step of the balancer, so
		// while no call fails the totals over k whole cycles are exact however the callers interleave.
		kinds := []string{"rr", "wrr", "nginx"}
		kind := kinds[sub%3]
		w := vecs[(sub/3*11+r.Plan(len(vecs)))%len(vecs)]
		r.Param("kind", kind)
		r.Param("weights", fmt.Sprint(w))
		e := newC18env(r, sim, kind, w)
		g, sum := 0, 0
		for _, x := range w {
			g = gcd(g, x)
			sum += x
		}
		cycle := len(w)
		want := map[string]int{}
		for i, u := range e.urls {
			switch kind {
			case "rr":
				want[u] = 1
			case "wrr":
				want[u], cycle = w[i]/g, sum/g
			case "nginx":
				want[u], cycle = w[i], sum
			}
		}
		ncycles := 1 + r.Plan(3)
		total := ncycles * cycle
		ntasks := 2 + r.Plan(3)
		// split the picks among the tasks
		share := make([]int, ntasks)
		for k := 0; k < total; k++ {
			share[r.Plan(ntasks)]++
		}
		fin := 0
		id := 0
		for t := 0; t < ntasks; t++ {
			var mine []*c18call
			for k := 0; k < share[t]; k++ {
				id++
				mine = append(mine, &c18call{id: id, outcome: 'S'})
			}
			e.calls = append(e.calls, mine...)
			sim.Task(fmt.Sprintf("caller%d", t), func() {
				for _, c := range mine {
					e.do(c)
				}
				fin++
			})
		}
		st := sim.Drive(func() bool { return fin == ntasks })
		if sim.Failure() != nil {
			return
		}
		if st != verifsim.Done {
			fail("stuck:"+kind, "status %v; parked %v", st, sim.ParkedNames())
			return
		}
		got := map[string]int{}
		for _, c := range e.calls {
			r.Res.Cases++
			if c.panicked != nil || c.err != nil || !c.entered {
				fail("balancer-failed:"+kind, "weights %v: concurrent pick %d failed: err %v panic %v", w, c.id, c.err, c.panicked)
				return
			}
			if !e.valid(c) {
				fail("invalid-server:"+kind, "weights %v: call %d went to %q", w, c.id, c.url)
				return
			}
			got[c.url]++
		}
		for _, u := range e.urls {
			if got[u] != want[u]*ncycles {
				fail("cycle-proportions-concurrent:"+kind, "weights %v, %d callers sharing %d whole cycles of %d picks, no call failed: %s was picked %d times, expected %d (all: %v)", w, ntasks, ncycles, cycle, u, got[u], want[u]*ncycles, got)
				return
			}
		}
	case "resize":
		// the configured server list changes between calls (the unweighted kinds read it from the client on every
		// call): every pick is one of the servers configured at that moment, whatever the list was before
		kind := []string{"rr", "random", "leastactive"}[sub%3]
		all := []int{1, 1, 1, 1, 1, 1}
		e := newC18env(r, sim, kind, all)
		full := append([]string(nil), e.urls...)
		r.Param("kind", kind)
		done := false
		sim.Task("picks", func() {
			defer func() { done = true }()
			id := 0
			n := 1 + r.Plan(len(full))
			for step := 0; step < 40; step++ {
				if r.Plan(3) == 0 {
					n = 1 + r.Plan(len(full))
				}
				cur := full[:n]
				us := make([]*url.URL, 0, n)
				for _, u := range cur {
					pu, _ := url.Parse(u)
					us = append(us, pu)
				}
				e.client.URLs = us
				e.urls = cur
				id++
				c := &c18call{id: id, outcome: "SSSE"[r.Plan(4)]}
				e.do(c)
				r.Res.Cases++
				if c.panicked != nil && c.outcome != 'P' {
					fail("balancer-panicked:"+kind, "after the server list changed to %d servers, pick %d panicked: %v", n, id, c.panicked)
					return
				}
				if !c.entered || !contains(cur, c.url) {
					fail("invalid-server:"+kind, "with %d servers configured (%v), pick %d went to %q (err %v)", n, cur, id, c.url, c.err)
					return
				}
			}
		})
		sim.Drive(func() bool { return done })
	case "membership":
		// every kind, random outcomes including panics, sequential and concurrent callers
		kind := c18Kinds[sub%len(c18Kinds)]
		w := vecs[(sub/len(c18Kinds)*7+r.Plan(len(vecs)))%len(vecs)]
		r.Param("kind", kind)
		r.Param("weights", fmt.Sprint(w))
		e := newC18env(r, sim, kind, w)
		ntasks := 1 + r.Plan(6)
		per := 1 + r.Plan(8)
		fin := 0
		id := 0
		for t := 0; t < ntasks; t++ {
			var mine []*c18call
			for k := 0; k < per; k++ {
				id++
				mine = append(mine, &c18call{id: id, outcome: "SSSEP"[r.Plan(5)]})
			}
			e.calls = append(e.calls, mine...)
			sim.Task(fmt.Sprintf("caller%d", t), func() {
				for _, c := range mine {
					e.do(c)
				}
				fin++
			})
		}
		st := sim.Drive(func() bool { return fin == ntasks })
		if sim.Failure() != nil {
			return
		}
		if st != verifsim.Done {
			fail("stuck:"+kind, "status %v; parked %v", st, sim.ParkedNames())
			return
		}
		for _, c := range e.calls {
			if !c.entered {
				fail("no-server-picked:"+kind, "weights %v: call %d never reached a server: err %v panic %v", w, c.id, c.err, c.panicked)
				return
			}
			if !e.valid(c) {
				fail("invalid-server:"+kind, "weights %v: call %d went to %q", w, c.id, c.url)
				return
			}
			if c.outcome != 'P' && c.panicked != nil {
				fail("balancer-panicked:"+kind, "weights %v: call %d: %v", w, c.id, c.panicked)
				return
			}
		}
		c18conservation(e, fail)
	case "leastactive", "leastactive-conc":
		kinds := []string{"leastactive", "wleastactive"}
		kind := kinds[sub%2]
		w := vecs[(sub/2*5+r.Plan(len(vecs)))%len(vecs)]
		if len(w) < 2 {
			w = []int{2, 2, 2}
		}
		r.Param("kind", kind)
		r.Param("weights", fmt.Sprint(w))
		e := newC18env(r, sim, kind, w)
		conc := mode == "leastactive-conc"
		ncalls := 2 + r.Plan(10)
		src := &optSource{}
		sim.AddSource(src)
		launched := 0
		var tasksRunning = map[int]bool{}
		src.f = func() []verifsim.Option {
			var out []verifsim.Option
			// release a parked call (tape decides which and when)
			for _, c := range e.calls {
				c := c
				if c.entered && !c.finished && c.gate != nil {
					ch := c.gate
					out = append(out, verifsim.Option{Label: fmt.Sprintf("release %d", c.id), Do: func() {
						if c.gate != nil {
							c.gate = nil
							close(ch)
						}
					}})
				}
			}
			// launch the next call: in the sequential variant only when no call is selecting
			selecting := false
			for _, c := range e.calls {
				if !c.entered && !c.finished {
					selecting = true
				}
			}
			if launched < ncalls && (conc || !selecting) {
				out = append(out, verifsim.Option{Label: "launch", Do: func() {
					launched++
					c := &c18call{id: launched, outcome: "SSEP"[r.Plan(4)], gate: make(chan struct{})}
					e.calls = append(e.calls, c)
					tasksRunning[c.id] = true
					sim.Task(fmt.Sprintf("call%02d", c.id), func() { e.do(c) })
				}})
			}
			return out
		}
		st := sim.Drive(func() bool {
			if launched < ncalls {
				return false
			}
			for _, c := range e.calls {
				if !c.finished {
					return false
				}
			}
			return true
		})
		if sim.Failure() != nil {
			return
		}
		if st != verifsim.Done {
			fail("stuck:"+kind, "status %v; parked %v", st, sim.ParkedNames())
			return
		}
		for _, c := range e.calls {
			if !e.valid(c) || !c.entered {
				fail("invalid-server:"+kind, "call %d went to %q (entered %v)", c.id, c.url, c.entered)
				return
			}
			// The pick must be a least-loaded server at some instant between the call's
			// start and its arrival at the server. A request is certainly in flight while
			// it is inside the next handler; while another call is still selecting, or has
			// left the next handler but not yet returned from the balancer, the balancer
			// may or may not count it - either reading is accepted.
			var instants []uint64
			for _, y := range e.calls {
				for _, t := range []uint64{y.invSeq, y.enterSeq, y.leaveSeq, y.finSeq} {
					if t >= c.invSeq && t <= c.enterSeq {
						instants = append(instants, t)
					}
				}
			}
			ok := false
			var seen []string
			for _, t := range instants {
				def, maybe := map[string]int{}, map[string]int{}
				for _, y := range e.calls {
					if y == c || !y.entered {
						continue
					}
					switch {
					case y.enterSeq <= t && (y.leaveSeq == 0 || t < y.leaveSeq):
						def[y.url]++
					case y.invSeq <= t && t < y.enterSeq, y.leaveSeq != 0 && y.leaveSeq <= t && (y.finSeq == 0 || t <= y.finSeq):
						maybe[y.url]++
					}
				}
				good := true
				for _, u := range e.urls {
					if def[c.url] > def[u]+maybe[u] {
						good = false
					}
				}
				seen = append(seen, fmt.Sprintf("in flight %v, entering or leaving %v", def, maybe))
				if good {
					ok = true
					break
				}
			}
			if !ok {
				how := "sequential"
				if conc {
					how = "concurrent"
				}
				fail("not-least-active:"+how+":"+kind, "call %d was sent to %s, which had not the fewest requests in flight at any instant between its start and its arrival: %v", c.id, c.url, seen)
				return
			}
		}
		c18conservation(e, fail)
	case "failure-aware":
		kinds := []string{"nginx", "wrandom", "wleastactive"}
		kind := kinds[sub%3]
		n := 2 + (sub/3)%3
		wt := 2 + (sub/9)%3
		scenario := []string{"reduce", "restore", "reduce-burst", "restore-burst"}[(sub/27)%4]
		w := make([]int, n)
		for i := range w {
			w[i] = wt
		}
		r.Param("kind", kind)
		r.Param("weights", fmt.Sprint(w))
		r.Param("scenario", scenario)
		e := newC18env(r, sim, kind, w)
		bad := e.urls[r.Plan(n)]
		sum := n * wt
		done := false
		sim.Task("picks", func() {
			defer func() { done = true }()
			id := 0
			pick := func(out func(url string) byte) string {
				id++
				c := &c18call{id: id}
				// the outcome depends on the server picked: decide inside next
				c.outcome = 'S'
				cc := core.NewClientContext()
				cc.Init(e.client)
				ctx := context.WithValue(core.WithContext(context.Background(), cc), c18key{}, c)
				func() {
					defer func() { recover() }()
					e.handler(ctx, []byte("req"), func(ctx context.Context, request []byte) ([]byte, error) {
						c.url = core.GetClientContext(ctx).URL.String()
						c.entered = true
						switch out(c.url) {
						case 'E':
							return nil, errors.New("server failure")
						case 'P':
							panic("server panic")
						}
						return []byte("Rnz"), nil
					})
				}()
				r.Res.Cases++
				return c.url
			}
			share := 1.0 / float64(n)
			if scenario == "reduce-burst" {
				// first a burst: many calls in flight at once, those that landed on the bad server fail together
				// (more failures than the server has weight); then the sequential reduce scenario
				var gates []chan struct{}
				finB, nB := 0, 6*n+r.Plan(6)
				for b := 0; b < nB; b++ {
					sim.Task(fmt.Sprintf("burst%02d", b), func() {
						defer func() { finB++ }()
						pick(func(u string) byte {
							if u != bad {
								return 'S'
							}
							g := make(chan struct{})
							gates = append(gates, g)
							<-g
							verifsim.ForceYield(-80)
							return 'E'
						})
					})
				}
				for finB+len(gates) < nB {
					time.Sleep(time.Millisecond)
					verifsim.ForceYield(-81)
				}
				r.Param("burst_failures", len(gates))
				for _, g := range gates {
					close(g)
				}
				for finB < nB {
					time.Sleep(time.Millisecond)
					verifsim.ForceYield(-82)
				}
				scenario = "reduce"
			}
			if scenario == "reduce" {
				F := 40 * sum
				failKind := byte("EP"[r.Plan(2)])
				var hist []string
				for k := 0; k < F; k++ {
					u := pick(func(u string) byte {
						if u == bad {
							return failKind
						}
						return 'S'
					})
					if !contains(e.urls, u) {
						fail("invalid-server:"+kind, "pick %d went to %q", k, u)
						return
					}
					hist = append(hist, u)
				}
				win := 4 * sum
				cnt := 0
				for _, u := range hist[len(hist)-win:] {
					if u == bad {
						cnt++
					}
				}
				if float64(cnt) >= 0.5*share*float64(win) {
					fail("failing-server-share-not-reduced:"+kind, "%d equal servers (weight %d): %s failed every time it was picked, yet in the last %d picks it was still chosen %d times (no-failure share would be %.0f)", n, wt, bad, win, cnt, share*float64(win))
				}
				return
			}
			if scenario == "restore-burst" {
				// one failure, then many calls in flight at once that all succeed and finish together on the server
				// that failed: its weight comes back, and not further than it was configured
				failed := false
				for k := 0; k < 50*sum && !failed; k++ {
					pick(func(u string) byte {
						if u == bad && !failed {
							failed = true
							return 'E'
						}
						return 'S'
					})
				}
				if !failed {
					return
				}
				var gates []chan struct{}
				finB, nB := 0, 8*n
				for b := 0; b < nB; b++ {
					sim.Task(fmt.Sprintf("burst%02d", b), func() {
						defer func() { finB++ }()
						pick(func(u string) byte {
							if u == bad {
								g := make(chan struct{})
								gates = append(gates, g)
								<-g
								verifsim.ForceYield(-83)
							}
							return 'S'
						})
					})
				}
				for finB+len(gates) < nB {
					time.Sleep(time.Millisecond)
					verifsim.ForceYield(-84)
				}
				r.Param("burst_successes", len(gates))
				for _, g := range gates {
					close(g)
				}
				for finB < nB {
					time.Sleep(time.Millisecond)
					verifsim.ForceYield(-85)
				}
				total, cnt := 60*sum, 0
				for k := 0; k < total; k++ {
					if pick(func(string) byte { return 'S' }) == bad {
						cnt++
					}
				}
				got := float64(cnt) / float64(total)
				tol := 0.05
				if kind != "nginx" {
					tol = 0.15 // randomised kinds: 60*sum picks
				}
				if got > share+tol {
					fail("share-exceeds-weight:"+kind, "%d equal servers (weight %d): after one failure and %d simultaneous successes %s got %.3f of %d failure-free picks, its configured share is %.3f", n, wt, len(gates), bad, got, total, share)
				} else if got < share-tol {
					fail("share-not-restored:"+kind, "%d equal servers (weight %d): after one failure and %d simultaneous successes %s got %.3f of %d failure-free picks, its configured share is %.3f", n, wt, len(gates), bad, got, total, share)
				}
				return
			}
			// restore: one failure, then successes
			failed := false
			total := 50 * sum
			if kind != "nginx" {
				total = 200 * sum
			}
			cnt := 0
			for k := 0; k < total; k++ {
				u := pick(func(u string) byte {
					if u == bad && !failed {
						failed = true
						return 'E'
					}
					return 'S'
				})
				if failed && u == bad {
					cnt++
				}
			}
			if !failed {
				return // never picked at all: nothing to restore (randomised kinds)
			}
			got := float64(cnt) / float64(total)
			if kind == "nginx" {
				if got < share-0.05 {
					fail("share-not-restored:"+kind, "%d equal servers (weight %d): after a single failure followed by successes %s got %.3f of %d picks, its no-failure share is %.3f", n, wt, bad, got, total, share)
				}
			} else if cnt <= 1 {
				fail("share-not-restored:"+kind, "%d equal servers (weight %d): after a single failure %s was picked only %d times in %d picks", n, wt, bad, cnt, total)
			}
		})
		sim.Drive(func() bool { return done })
	}
}

// c18conservation: after all calls ended (success, error, panic) the least-active
// kinds must behave as with all in-flight counts zero: n parked probe calls go to
// n different servers.
func c18conservation(e *c18env, fail func(string, string, ...interface{})) {
	if e.kind != "leastactive" && e.kind != "wleastactive" {
		return
	}
	for _, u := range e.urls {
		if e.inflight[u] != 0 {
			return // harness bookkeeping says calls are still inside: not the state to probe
		}
	}
	n := len(e.urls)
	var probes []*c18call
	for i := 0; i < n; i++ {
		c := &c18call{id: 9000 + i, outcome: 'S', gate: make(chan struct{})}
		probes = append(probes, c)
		e.sim.Task(fmt.Sprintf("zprobe%d", i), func() { e.do(c) })
		e.sim.Drive(func() bool { return c.entered || c.finished })
		if e.sim.Failure() != nil {
			return
		}
	}
	seen := map[string]bool{}
	var order []string
	for _, c := range probes {
		seen[c.url] = true
		order = append(order, c.url)
	}
	for _, c := range probes {
		close(c.gate)
	}
	e.sim.Drive(func() bool {
		for _, c := range probes {
			if !c.finished {
				return false
			}
		}
		return true
	})
	if len(seen) != n {
		sort.Strings(order)
		fail("inflight-counts-not-restored:"+e.kind, "after every call had ended (normally, with an error or by panic), %d calls held in flight one after another went to %v instead of %d different servers: some in-flight count did not return to zero", n, order, n)
	}
}

func gcd(a, b int) int {
	for b != 0 {
		a, b = b, a%b
	}
	return a
}
