package hsim

// C05 Streaming decode equals in-memory decode for every fragmentation.
//
// The simulated component is the io.Reader handed to the decoder - the
// library's only I/O seam: fragmentation, zero-byte reads, EOF with or after the
// last chunk, an I/O error at a chosen offset, the buffer size and pooled
// decoders that were used before. The oracle is differential: the in-memory
// decoder on the same bytes.

import (
	"bytes"
	"errors"
	"fmt"
	"io"
	"math"
	"os"
	"reflect"
	"runtime"
	"strings"

	hio "github.com/hprose/hprose-golang/v3/io"
	"verifsim"
)

func init() { scenarios["C05"] = scenC05; batchProps["C05"] = true }

// simReader is the simulated reader.
type simReader struct {
	emptyAsks   int
	data        []byte
	chunks      []int // successive read sizes; 0 = a read returning (0, nil); exhausted = rest
	i           int
	eofWithLast bool
	errAt       int // inject errInjected once this many bytes were handed out (-1: never)
	given       int
	reads       int
}

var errInjected = errors.New("sim: injected I/O error")

func (r *simReader) Read(p []byte) (int, error) {
	r.reads++
	if len(p) == 0 {
		// a decoder that asks for nothing can never make progress: end the run instead of spinning
		if r.emptyAsks++; r.emptyAsks > 1000 {
			panic("the decoder called Read with an empty buffer 1000 times")
		}
		return 0, nil
	}
	if r.errAt >= 0 && r.given >= r.errAt {
		return 0, errInjected
	}
	if len(r.data) == 0 {
		return 0, io.EOF
	}
	n := len(r.data)
	if r.i < len(r.chunks) {
		n = r.chunks[r.i]
		r.i++
	}
	if n > len(r.data) {
		n = len(r.data)
	}
	if n > len(p) {
		n = len(p)
	}
	if r.errAt >= 0 && r.given+n > r.errAt {
		n = r.errAt - r.given
	}
	copy(p, r.data[:n])
	r.data = r.data[n:]
	r.given += n
	if len(r.data) == 0 && r.eofWithLast && n > 0 {
		return n, io.EOF
	}
	return n, nil
}

func allZero(b []byte) bool {
	for _, x := range b {
		if x != 0 {
			return false
		}
	}
	return true
}

func errClass(e error) string {
	switch {
	case e == nil:
		return "nil"
	case e == errInjected:
		return "injected"
	case e == io.EOF || e == io.ErrUnexpectedEOF:
		return "eof"
	default:
		return "err"
	}
}

func valEq(a, b interface{}) bool {
	if fa, ok := a.(float64); ok {
		if fb, ok := b.(float64); ok && math.IsNaN(fa) && math.IsNaN(fb) {
			return true
		}
	}
	if fa, ok := a.(float32); ok {
		if fb, ok := b.(float32); ok && fa != fa && fb != fb {
			return true
		}
	}
	if ca, ok := a.(complex128); ok {
		if cb, ok := b.(complex128); ok {
			return valEq(real(ca), real(cb)) && valEq(imag(ca), imag(cb))
		}
	}
	if reflect.DeepEqual(a, b) {
		return true
	}
	// containers holding NaN: compare renderings
	return fmt.Sprintf("%#v", a) == fmt.Sprintf("%#v", b) && strings.Contains(fmt.Sprintf("%#v", a), "NaN")
}

type decOutcome struct {
	vals    []interface{}
	errText string
	ec      string
	rem     []byte
	panicAt string
}

// hproseFrame returns the innermost hprose frame of the current panic stack.
func hproseFrame() string {
	pcs := make([]uintptr, 64)
	n := runtime.Callers(3, pcs)
	frames := runtime.CallersFrames(pcs[:n])
	for {
		f, more := frames.Next()
		if strings.Contains(f.Function, "hprose-golang/v3/") {
			return strings.TrimPrefix(f.Function, "github.com/hprose/hprose-golang/v3/")
		}
		if !more {
			return "?"
		}
	}
}

func normPanic(p interface{}) string {
	s := fmt.Sprint(p)
	s = hexRe2.ReplaceAllString(s, "N")
	if len(s) > 80 {
		s = s[:80]
	}
	return strings.ReplaceAll(s, " ", "_")
}

func decodeAll(dec *hio.Decoder, mks []func() interface{}) (o decOutcome) {
	defer func() {
		if p := recover(); p != nil {
			o.panicAt = hproseFrame() + ":" + normPanic(p)
		}
	}()
	for _, mk := range mks {
		p := mk()
		dec.Decode(p)
		if dec.Error != nil {
			break
		}
		o.vals = append(o.vals, reflect.ValueOf(p).Elem().Interface())
	}
	o.ec = errClass(dec.Error)
	o.errText = fmt.Sprint(dec.Error)
	o.rem = dec.Remains()
	return
}

func scenC05(r *Run) {
	nvals := 1 + r.Plan(4)
	var items []genItem
	refMode := r.PlanBool(2)
	for i := 0; i < nvals; i++ {
		it := r.genValue(2)
		items = append(items, it)
	}
	if r.hasCycle() {
		refMode = true
	}
	enc := hio.NewEncoder(nil).Simple(!refMode)
	var mks []func() interface{}
	var kinds []string
	for _, it := range items {
		if err := enc.Encode(it.V); err != nil {
			r.Res.Verdict = "inconclusive"
			r.Note("encoder error: %v", err)
			return
		}
		mks = append(mks, it.New)
		kinds = append(kinds, it.Kind)
	}
	stream := append([]byte(nil), enc.Bytes()...)
	trailing := 0
	switch r.Plan(6) {
	case 0: // truncation
		if len(stream) > 1 {
			stream = stream[:1+r.Plan(len(stream)-1)]
		}
	case 1: // bytes after the last value: the final position matters
		stream = append(stream, []byte("tail-bytes-after-the-values")...)
		trailing = 27
	}
	r.Param("kinds", strings.Join(kinds, ","))
	r.Param("len", len(stream))
	r.Param("ref_mode", refMode)
	if r.Opt["dump"] != "" {
		fmt.Fprintf(os.Stderr, "DUMP kinds=%v ref_mode=%v stream=%q\n", kinds, refMode, stream)
	}
	ref := decodeAll(hio.NewDecoder(stream).Simple(!refMode), mks)
	// the same in-memory decode with a decoder that read from a reader before: nothing of that use may show
	if ref.panicAt == "" {
		// (a reader with far more to give than the decoder buffers ahead)
		d := hio.NewDecoderFromReader(&simReader{data: []byte(`s5"stale"` + strings.Repeat(`i7;s3"abc"`, 400)), chunks: []int{4, 3, 64, 64, 64, 64, 64, 64, 64, 64, 64, 64, 64, 64, 64, 64}, errAt: -1})
		var junk string
		d.Decode(&junk)
		own := append([]byte(nil), stream...)
		again := decodeAll(d.ResetBytes(own).Simple(!refMode), mks)
		if again.ec != ref.ec || !bytes.Equal(again.rem, ref.rem) || len(again.vals) != len(ref.vals) || again.panicAt != "" || !bytes.Equal(own, stream) {
			r.Fail("C05:in-memory-decode-after-reader-use-differs", "a decoder that had read from a reader, reset to the bytes of the stream: %d values, error %q, %d bytes left, panic %q, input intact %v; a fresh decoder: %d values, error %q, %d bytes left (stream %q)", len(again.vals), again.errText, len(again.rem), again.panicAt, bytes.Equal(own, stream), len(ref.vals), ref.errText, len(ref.rem), clip(stream, 120))
			return
		}
	}
	if ref.panicAt != "" {
		r.Fail("C05:in-memory-decode-panicked:"+ref.panicAt, "stream %q", stream)
		return
	}
	_ = trailing
	cases, split := 0, 0
	bufSizes := []int{0, 256, 300, 512, 4096}
	try := func(desc string, mk func() *simReader, bufSize int, pooled bool) bool {
		rd := mk()
		var dec *hio.Decoder
		if pooled {
			// a pooled decoder that was used before: on a longer and failing input, on an empty one, or on a small
			// valid one whose bytes still belong to that earlier caller
			d0 := hio.GetDecoder()
			prev := [][]byte{[]byte(`s5"abc`), {}, []byte(`s3"own"`), make([]byte, 0, 16)}[cases%4]
			keep := append([]byte(nil), prev...)
			d0.ResetBytes(prev).Simple(false)
			// ... with every option away from its default: none of them may be visible in the next use
			d0.LongType, d0.RealType, d0.MapType = hio.LongTypeBigInt, hio.RealTypeFloat32, hio.MapTypeSIMap
			d0.StructType, d0.ListType = hio.StructTypeValue, hio.ListTypeSlice
			var junk string
			d0.Decode(&junk)
			hio.FreeDecoder(d0)
			dec = hio.GetDecoder().ResetReader(rd)
			defer hio.FreeDecoder(dec)
			defer func() {
				if !bytes.Equal(prev[:len(keep)], keep) || (cap(prev) > len(prev) && !allZero(prev[len(prev):cap(prev)])) {
					r.Fail("C05:streaming-decode-wrote-into-an-earlier-input", "%s: the pooled decoder had decoded %q before; after the streaming decode that slice reads %q", desc, keep, prev[:cap(prev)])
				}
			}()
		} else if bufSize > 0 {
			dec = hio.NewDecoderFromReader(rd, bufSize)
		} else {
			dec = hio.NewDecoderFromReader(rd)
		}
		dec.Simple(!refMode)
		if r.Opt["dump"] != "" {
			fmt.Fprintf(os.Stderr, "TRY %s buffer %d pooled %v\n", desc, bufSize, pooled)
		}
		got := decodeAll(dec, mks)
		cases++
		if rd.reads > 2 {
			split++
		}
		where := fmt.Sprintf("%s, buffer %d, pooled %v; %d values of kinds %v, stream of %d bytes %q", desc, bufSize, pooled, len(mks), kinds, len(stream), clip(stream, 120))
		if got.panicAt != "" {
			r.Fail("C05:streaming-decode-panicked:"+got.panicAt, "%s; the same bytes decode from memory with outcome %s", where, ref.ec)
			return false
		}
		if rd.errAt >= 0 {
			// injected fault: that very error (or an earlier completion), and every value
			// completed before the fault equal to the in-memory one
			// (which error wins when the fault cuts a token - the reader's or the decode
			// error it causes - is not fixed by the property: any error will do)
			if got.ec == "nil" && !(ref.ec == "nil" && len(got.vals) == len(ref.vals)) {
				r.Fail("C05:io-error-not-reported", "%s: no error after %d values (in memory: %s after %d)", where, len(got.vals), ref.ec, len(ref.vals))
				return false
			}
			for i, v := range got.vals {
				if i >= len(ref.vals) || !valEq(v, ref.vals[i]) {
					r.Fail("C05:value-differs-before-io-error", "%s: value %d is %#v, in memory %#v", where, i, v, ref.vals)
					return false
				}
			}
			return true
		}
		if got.ec != ref.ec {
			r.Fail("C05:error-outcome-differs:"+ref.ec+"-vs-"+got.ec, "%s: streaming ends with error class %s (%s) after %d values, in memory with %s (%s) after %d", where, got.ec, got.errText, len(got.vals), ref.ec, ref.errText, len(ref.vals))
			return false
		}
		if len(got.vals) != len(ref.vals) {
			r.Fail("C05:value-count-differs", "%s: %d values, in memory %d", where, len(got.vals), len(ref.vals))
			return false
		}
		for i := range got.vals {
			if !valEq(got.vals[i], ref.vals[i]) {
				r.Fail("C05:value-differs:"+kinds[i], "%s: value %d is %#v, in memory %#v", where, i, clipV(got.vals[i]), clipV(ref.vals[i]))
				return false
			}
		}
		if string(got.rem) != string(ref.rem) {
			r.Fail("C05:final-position-differs", "%s: %d bytes remain unread (%q), in memory %d (%q)", where, len(got.rem), clip(got.rem, 40), len(ref.rem), clip(ref.rem, 40))
			return false
		}
		return true
	}
	n := len(stream)
	for _, eofLast := range []bool{false, true} {
		// every two-way split position
		for k := 0; k <= n; k++ {
			k := k
			if !try(fmt.Sprintf("two-way split at %d, EOF with last chunk %v", k, eofLast), func() *simReader {
				return &simReader{data: stream, chunks: []int{k}, eofWithLast: eofLast, errAt: -1}
			}, 0, false) {
				return
			}
		}
		// every fixed chunk size 1..64 and around the buffer sizes
		sizes := []int{255, 256, 257, 299, 300, 301, 511, 512, 513}
		for c := 1; c <= 64; c++ {
			sizes = append(sizes, c)
		}
		for _, c := range sizes {
			c := c
			chunks := make([]int, n/c+2)
			for i := range chunks {
				chunks[i] = c
			}
			bs := bufSizes[(c+n)%len(bufSizes)]
			if !try(fmt.Sprintf("fixed chunks of %d, EOF with last chunk %v", c, eofLast), func() *simReader {
				return &simReader{data: stream, chunks: chunks, eofWithLast: eofLast, errAt: -1}
			}, bs, c%7 == 0) {
				return
			}
		}
	}
	// tape-driven: random chunk sequences with zero-byte reads, and injected I/O errors
	for t := 0; t < 24; t++ {
		var chunks []int
		for left := n; left > 0; {
			c := []int{0, 1, 1, 2, 3, 5, 8, 13, 64, 255, 256, 257}[r.Plan(12)]
			chunks = append(chunks, c)
			left -= c
			if len(chunks) > 4*n+8 {
				break
			}
		}
		errAt := -1
		if t%3 == 2 && n > 0 {
			errAt = r.Plan(n + 1)
		}
		bs := bufSizes[r.Plan(len(bufSizes))]
		pooled := r.PlanBool(3)
		if !try(fmt.Sprintf("chunks %v, I/O error at %d", clipInts(chunks, 40), errAt), func() *simReader {
			return &simReader{data: stream, chunks: chunks, eofWithLast: t%2 == 0, errAt: errAt}
		}, bs, pooled) {
			return
		}
	}
	r.Res.Cases = cases
	r.Res.Nontrivial = split > 0
	if r.Res.Extra == nil {
		r.Res.Extra = map[string]interface{}{}
	}
	r.Res.Extra["distinct_cases"] = split
	r.Res.LogHash = fmt.Sprintf("%x", verifsim.HashString(string(stream)))
	if r.Trace {
		r.Res.Extra["sample"] = map[string]interface{}{"kinds": kinds, "stream": string(clip(stream, 200)), "reference_outcome": ref.ec, "fragmentations_tried": cases}
	}
}

func clip(b []byte, n int) []byte {
	if len(b) > n {
		return append(append([]byte(nil), b[:n]...), '.', '.', '.')
	}
	return b
}

func clipV(v interface{}) string {
	s := fmt.Sprintf("%#v", v)
	if len(s) > 200 {
		s = s[:200] + "..."
	}
	return s
}

func clipInts(v []int, n int) []int {
	if len(v) > n {
		return v[:n]
	}
	return v
}
