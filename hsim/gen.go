package hsim

// Type-directed value generator over the serializer's supported types, with
// boundary values. Every choice comes from the tape (plan stream). Used as
// payload by C04, C05, C08 and C14; it makes no claim about C01-C03.

import (
	"math"
	"math/big"
	"strings"
	"time"

	"github.com/google/uuid"
)

// genItem is a generated value together with a constructor for a fresh
// destination of its static type.
type genItem struct {
	V    interface{}
	New  func() interface{} // pointer to a zero destination
	Kind string
}

type GInner struct {
	A int
	B string
}

type GOuter struct {
	X  int
	In *GInner
	L  []int
	M  map[string]float64
	S  string
	T  time.Time
	P  *int
	I  interface{}
}

type GNode struct {
	Name string
	Next *GNode
	Kids []*GNode
}

type GTagged struct {
	ID    int64   `hprose:"id"`
	Score float32 `hprose:"score"`
	Skip  string  `hprose:"-"`
	Raw   []byte
	U     uuid.UUID
}

var genStrings = []string{"", "x", "hello", "héllo, 世界", "𝄞𝄞 astral 😀", strings.Repeat("ü", 130), strings.Repeat("日本語", 90),
	"quote\"brace{}semi;", strings.Repeat("a", 255), strings.Repeat("b", 256), strings.Repeat("c", 257), strings.Repeat("𝄞", 70), "\x00\x01\x7f"}

var genInts = []int64{0, 1, 9, 10, -1, 42, 127, 128, 255, 256, 32767, 65536, math.MaxInt32, math.MinInt32, math.MaxInt32 + 1, math.MaxInt64, math.MinInt64, 1234567890123}

var genFloats = []float64{0, 1, -1, 0.5, 3.25e-7, 1e100, -1e-100, math.MaxFloat64, math.SmallestNonzeroFloat64, math.Inf(1), math.Inf(-1), math.NaN(), 123456.789}

func (r *Run) genString() string { return genStrings[r.Plan(len(genStrings))] }

func (r *Run) genScalar() genItem {
	switch r.Plan(14) {
	case 0:
		v := int(genInts[r.Plan(len(genInts))])
		return genItem{v, func() interface{} { return new(int) }, "int"}
	case 1:
		v := genInts[r.Plan(len(genInts))]
		return genItem{v, func() interface{} { return new(int64) }, "int64"}
	case 2:
		v := int8(genInts[r.Plan(len(genInts))])
		return genItem{v, func() interface{} { return new(int8) }, "int8"}
	case 3:
		v := uint64(genInts[r.Plan(len(genInts))])
		return genItem{v, func() interface{} { return new(uint64) }, "uint64"}
	case 4:
		v := genFloats[r.Plan(len(genFloats))]
		return genItem{v, func() interface{} { return new(float64) }, "float64"}
	case 5:
		v := float32(genFloats[r.Plan(len(genFloats))])
		return genItem{v, func() interface{} { return new(float32) }, "float32"}
	case 6:
		v := r.PlanBool(2)
		return genItem{v, func() interface{} { return new(bool) }, "bool"}
	case 7, 8:
		v := r.genString()
		return genItem{v, func() interface{} { return new(string) }, "string"}
	case 9:
		v := []byte(r.genString())
		return genItem{v, func() interface{} { return new([]byte) }, "bytes"}
	case 10:
		ts := []time.Time{time.Date(2024, 2, 29, 13, 14, 15, 123456789, time.UTC), time.Date(1970, 1, 1, 0, 0, 0, 0, time.UTC),
			time.Date(9999, 12, 31, 23, 59, 59, 999999000, time.UTC), time.Date(2000, 1, 1, 0, 0, 0, 0, time.UTC), time.Date(1, 1, 1, 12, 0, 0, 500000, time.UTC)}
		v := ts[r.Plan(len(ts))]
		return genItem{v, func() interface{} { return new(time.Time) }, "time"}
	case 11:
		v := new(big.Int).Lsh(big.NewInt(int64(1+r.Plan(1000))), uint(r.Plan(300)))
		if r.PlanBool(3) {
			v.Neg(v)
		}
		return genItem{v, func() interface{} { return new(*big.Int) }, "bigint"}
	case 12:
		v := uuid.UUID{byte(r.Plan(256)), 2, 3, 4, 5, 6, 7, 8, 9, 10, 11, 12, 13, 14, 15, byte(r.Plan(256))}
		return genItem{v, func() interface{} { return new(uuid.UUID) }, "uuid"}
	default:
		v := complex(genFloats[r.Plan(6)], genFloats[r.Plan(6)])
		return genItem{v, func() interface{} { return new(complex128) }, "complex128"}
	}
}

// genValue returns a value of a tape-chosen type; depth bounds nesting.
func (r *Run) genValue(depth int) genItem {
	if depth <= 0 {
		return r.genScalar()
	}
	switch r.Plan(16) {
	case 0, 1, 2, 3, 4:
		return r.genScalar()
	case 5:
		n := r.Plan(6)
		v := make([]int, n)
		for i := range v {
			v[i] = int(genInts[r.Plan(len(genInts))])
		}
		return genItem{v, func() interface{} { return new([]int) }, "[]int"}
	case 6:
		n := r.Plan(5)
		v := make([]string, n)
		for i := range v {
			v[i] = r.genString()
		}
		if n > 2 {
			v[n-1] = v[0] // a repeated string becomes a back-reference in reference mode
		}
		return genItem{v, func() interface{} { return new([]string) }, "[]string"}
	case 7:
		v := map[string]int{}
		for i, n := 0, r.Plan(4); i < n; i++ {
			v[r.genString()] = int(genInts[r.Plan(len(genInts))])
		}
		return genItem{v, func() interface{} { return new(map[string]int) }, "map[string]int"}
	case 8:
		v := map[int]string{}
		for i, n := 0, r.Plan(4); i < n; i++ {
			v[int(genInts[r.Plan(8)])] = r.genString()
		}
		return genItem{v, func() interface{} { return new(map[int]string) }, "map[int]string"}
	case 9:
		n := 7
		p := &n
		v := &GOuter{X: int(genInts[r.Plan(len(genInts))]), In: &GInner{A: r.Plan(100), B: r.genString()}, L: []int{1, 2, r.Plan(1000)},
			M: map[string]float64{"k": genFloats[r.Plan(11)]}, S: r.genString(), T: time.Date(2020, 5, 6, 7, 8, 9, 0, time.UTC), P: p}
		if r.PlanBool(2) {
			v.In = nil
		}
		if r.PlanBool(2) {
			v.I = r.genString()
		}
		return genItem{v, func() interface{} { return new(*GOuter) }, "*GOuter"}
	case 10:
		r.genShared = true
		a := &GNode{Name: r.genString()}
		b := &GNode{Name: "b" + r.genString(), Next: a}
		a.Kids = []*GNode{b, b}
		if r.PlanBool(3) {
			a.Next = a // a cycle (reference mode only)
		}
		return genItem{a, func() interface{} { return new(*GNode) }, "*GNode"}
	case 11:
		v := GTagged{ID: genInts[r.Plan(len(genInts))], Score: float32(genFloats[r.Plan(5)]), Skip: "never", Raw: []byte(r.genString()), U: uuid.UUID{1, 2, 3}}
		return genItem{v, func() interface{} { return new(GTagged) }, "GTagged"}
	case 12:
		n := r.Plan(5)
		v := make([]interface{}, n)
		for i := range v {
			v[i] = r.genScalar().V
		}
		return genItem{v, func() interface{} { return new(interface{}) }, "[]interface{}"}
	case 13:
		n := r.Plan(4)
		v := make([][]int, n)
		for i := range v {
			v[i] = []int{i, r.Plan(100)}
		}
		return genItem{v, func() interface{} { return new([][]int) }, "[][]int"}
	case 14:
		v := map[string][]string{}
		for i, n := 0, r.Plan(4); i < n; i++ {
			v[r.genString()] = []string{r.genString(), "k"}
		}
		return genItem{v, func() interface{} { return new(map[string][]string) }, "map[string][]string"}
	default:
		in := r.genValue(depth - 1)
		v := []interface{}{in.V, r.genString(), in.V}
		return genItem{v, func() interface{} { return new(interface{}) }, "nested"}
	}
}

// hasCycle reports whether a pointer graph with sharing or cycles was generated
// so far in this run: such values can only be encoded in reference mode.
func (r *Run) hasCycle() bool { return r.genShared }
