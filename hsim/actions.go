package hsim

import (
	"time"

	"verifsim"
)

// Action is a one-shot thing the controller may do once its condition holds
// (start an Abort task, cancel a context, kill a connection...). Offering it as
// a controller option makes *when* it happens a tape decision.
type Action struct {
	Name  string
	When  func() bool
	Do    func()
	fired bool
}

// Actions is a verifsim.Source of one-shot actions.
type Actions struct {
	list []*Action
}

func NewActions(sim *verifsim.Sim) *Actions {
	a := &Actions{}
	sim.AddSource(a)
	return a
}

func (a *Actions) Add(name string, when func() bool, do func()) *Action {
	ac := &Action{Name: name, When: when, Do: do}
	a.list = append(a.list, ac)
	return ac
}

func (a *Actions) Options(now time.Time) []verifsim.Option {
	var out []verifsim.Option
	for _, ac := range a.list {
		ac := ac
		if ac.fired || (ac.When != nil && !ac.When()) {
			continue
		}
		out = append(out, verifsim.Option{Label: "action " + ac.Name, Do: func() {
			ac.fired = true
			ac.Do()
		}})
	}
	return out
}

func (a *Actions) NextDue(now time.Time) (time.Time, bool) { return time.Time{}, false }

// Clear drops every action that has not fired.
func (a *Actions) Clear() {
	for _, ac := range a.list {
		ac.fired = true
	}
}
