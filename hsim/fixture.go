package hsim

import (
	"context"
	"fmt"
	"net"
	"net/http"
	"strings"

	"github.com/hprose/hprose-golang/v3/rpc/core"
	rpchttp "github.com/hprose/hprose-golang/v3/rpc/http"
	rpcfast "github.com/hprose/hprose-golang/v3/rpc/http/fasthttp"
	"github.com/hprose/hprose-golang/v3/rpc/mock"
	"github.com/hprose/hprose-golang/v3/rpc/socket"
	"github.com/hprose/hprose-golang/v3/rpc/udp"
	"github.com/hprose/hprose-golang/v3/rpc/websocket"
	"github.com/valyala/fasthttp"
	"verifsim"
)

// Fixture wires a real core.Service and real core.Clients together through the
// simulated network by one transport.
//
// Kinds: socket (tcp framing; the tcp/unix/tls difference is confined to the
// address selection in dial(), which the seam replaces), websocket (net/http
// server), websocket-fast (fasthttp server), udp, http (net/http client and
// server), fasthttp (fasthttp client and server), mock.
type Fixture struct {
	Kind     string
	R        *Run
	Net      *Net
	UDP      *UDPNet
	Service  *core.Service
	URL      string
	Addr     string
	ctx      context.Context
	cancel   context.CancelFunc
	listener *Listener
	udpSrv   *UDPServer
	clients  []*core.Client
	pending  []func() (int, int)
	counters []func(int32)
	stops    []func()
	poolRef  core.WorkerPool
}

// AllKinds lists the transports the fixture can wire up.
var AllKinds = []string{"socket", "websocket", "websocket-fast", "udp", "http", "fasthttp", "mock"}

// MuxKinds multiplex many calls over one connection with request indices.
var MuxKinds = []string{"socket", "websocket", "websocket-fast", "udp"}

// RegisterKind registers exactly the transport and handler a run needs. It must
// be called before core.NewService / core.NewClient (they instantiate whatever
// is registered). One run per process: nothing else is ever registered.
func RegisterKind(kind string) {
	switch kind {
	case "socket":
		socket.RegisterTransport()
		socket.RegisterHandler()
	case "websocket", "websocket-fast":
		websocket.RegisterTransport()
		websocket.RegisterHandler()
	case "udp":
		udp.RegisterTransport()
		udp.RegisterHandler()
	case "http":
		rpchttp.RegisterTransport()
		rpchttp.RegisterHandler()
	case "fasthttp":
		rpcfast.RegisterTransport()
		rpchttp.RegisterHandler()
	case "mock":
		mock.RegisterTransport()
		mock.RegisterHandler()
	default:
		panic("RegisterKind: " + kind)
	}
}

// HasConns reports whether the transport runs over simulated stream connections.
func (f *Fixture) HasConns() bool { return f.Kind != "mock" && f.Kind != "udp" }

// IsMux reports whether the transport multiplexes calls by request index.
func (f *Fixture) IsMux() bool {
	for _, k := range MuxKinds {
		if k == f.Kind {
			return true
		}
	}
	return false
}

// NewFixture starts the server side of the given transport for service.
// RegisterKind(kind) must have been called before the service was created.
func NewFixture(r *Run, kind string, service *core.Service) *Fixture {
	f := &Fixture{Kind: kind, R: r, Service: service}
	f.Net = NewNet(r.Sim)
	f.UDP = NewUDPNet(r.Sim)
	f.ctx, f.cancel = context.WithCancel(context.Background())
	n := f.Net
	switch kind {
	case "socket":
		f.Addr = "10.0.0.1:8412"
		f.URL = "tcp://" + f.Addr + "/"
		f.listener = n.Listen(f.Addr)
		h := service.GetHandler("socket")
		r.Sim.Task("srv", func() { h.BindContext(f.ctx, f.listener) })
		socket.VerifDial = func(ctx context.Context) (net.Conn, error) { return n.Dial(ctx, f.Addr) }
	case "websocket", "http":
		f.Addr = "10.0.0.1:8080"
		scheme := "http"
		name := "http"
		if kind == "websocket" {
			scheme, name = "ws", "websocket"
			websocket.VerifNetDial = func(ctx context.Context, network, addr string) (net.Conn, error) { return n.Dial(ctx, f.Addr) }
		}
		f.URL = scheme + "://" + f.Addr + "/"
		f.listener = n.Listen(f.Addr)
		srv := &http.Server{}
		service.GetHandler(name).BindContext(f.ctx, srv)
		inner := srv.Handler
		srv.Handler = http.HandlerFunc(func(w http.ResponseWriter, req *http.Request) {
			// the per-connection goroutine of net/http gets a name derived from the connection
			verifsim.NameCurrent("httpconn-" + req.RemoteAddr)
			inner.ServeHTTP(w, req)
		})
		r.Sim.Task("srv", func() { srv.Serve(f.listener) })
		f.stops = append(f.stops, func() { srv.Close() })
	case "websocket-fast", "fasthttp":
		f.Addr = "10.0.0.1:8080"
		scheme := "http"
		name := "http"
		if kind == "websocket-fast" {
			scheme, name = "ws", "websocket"
			websocket.VerifNetDial = func(ctx context.Context, network, addr string) (net.Conn, error) { return n.Dial(ctx, f.Addr) }
		}
		f.URL = scheme + "://" + f.Addr + "/"
		f.listener = n.Listen(f.Addr)
		srv := &fasthttp.Server{}
		service.GetHandler(name).BindContext(f.ctx, srv)
		innerFast := srv.Handler
		srv.Handler = func(ctx *fasthttp.RequestCtx) {
			verifsim.NameCurrent("fastconn-" + ctx.RemoteAddr().String())
			innerFast(ctx)
		}
		r.Sim.Task("srv", func() { srv.Serve(f.listener) })
	case "udp":
		f.Addr = "10.0.0.1:8412"
		f.URL = "udp://" + f.Addr + "/"
		f.udpSrv = f.UDP.Listen(8412)
		h := service.GetHandler("udp")
		r.Sim.Task("srv", func() { h.BindContext(f.ctx, f.udpSrv) })
		udp.VerifDial = func(ctx context.Context) (net.Conn, error) {
			c, err := f.UDP.Dial(f.udpSrv)
			if err != nil {
				return nil, err
			}
			return c, nil
		}
	case "mock":
		f.Addr = "simtest"
		f.URL = "mock://" + f.Addr
		service.GetHandler("mock").BindContext(f.ctx, mock.Server{Address: f.Addr})
		f.stops = append(f.stops, func() { mock.Server{Address: f.Addr}.Close() })
	default:
		panic("fixture: unknown transport kind " + kind)
	}
	return f
}

// NewClient returns a real client for the fixture's URL.
func (f *Fixture) NewClient() *core.Client {
	c := core.NewClient(f.URL)
	f.clients = append(f.clients, c)
	n := f.Net
	switch f.Kind {
	case "socket":
		f.pending = append(f.pending, c.GetTransport("socket").(*socket.Transport).VerifPending)
		f.counters = append(f.counters, c.GetTransport("socket").(*socket.Transport).VerifSetCounter)
	case "websocket", "websocket-fast":
		f.pending = append(f.pending, c.GetTransport("websocket").(*websocket.Transport).VerifPending)
		f.counters = append(f.counters, c.GetTransport("websocket").(*websocket.Transport).VerifSetCounter)
	case "udp":
		f.pending = append(f.pending, c.GetTransport("udp").(*udp.Transport).VerifPending)
		f.counters = append(f.counters, c.GetTransport("udp").(*udp.Transport).VerifSetCounter)
	case "http":
		t := c.GetTransport("http").(*rpchttp.Transport)
		ht := t.HTTPClient.Transport.(*http.Transport)
		ht.DialContext = func(ctx context.Context, network, addr string) (net.Conn, error) { return n.Dial(ctx, f.Addr) }
		t.HTTPClient.Jar = nil
		f.stops = append(f.stops, ht.CloseIdleConnections)
	case "fasthttp":
		t := c.GetTransport("fasthttp").(*rpcfast.Transport)
		t.FastHTTPClient.Dial = func(addr string) (net.Conn, error) { return n.Dial(context.Background(), f.Addr) }
		f.stops = append(f.stops, t.FastHTTPClient.CloseIdleConnections)
	}
	return c
}

// SetPool installs a worker pool on the server-side handler (mux transports).
func (f *Fixture) SetPool(p core.WorkerPool) bool {
	f.poolRef = p
	switch h := f.Service.GetHandler(strings.TrimSuffix(f.Kind, "-fast")).(type) {
	case *socket.Handler:
		h.Pool = p
	case *websocket.Handler:
		h.Pool = p
	case *udp.Handler:
		h.Pool = p
	default:
		return false
	}
	return true
}

// Pending sums pooled connections and pending entries over all clients.
func (f *Fixture) Pending() (conns, pending int) {
	for _, p := range f.pending {
		c, n := p()
		if c < 0 {
			return -1, -1 // a task holds the transport's lock (e.g. while dialling)
		}
		conns += c
		pending += n
	}
	return
}

// SetCounter presets the request counter of every pooled connection of every client (multiplexing transports).
func (f *Fixture) SetCounter(v int32) {
	for _, set := range f.counters {
		set(v)
	}
}

// InFlight reports whether any message is still travelling.
func (f *Fixture) InFlight() bool { return f.Net.InFlight() || f.UDP.InFlight() }

// Heal ends every planned or active network fault; black-holed stream
// connections are reset, as a kernel eventually would.
func (f *Fixture) Heal() {
	f.Net.Disarm()
	f.Net.HealSilent()
	f.UDP.Heal()
}

// Shutdown stops the server side (listener, serving contexts) and aborts every
// client; to be called from a harness task, not from the controller.
func (f *Fixture) Shutdown() {
	for _, c := range f.clients {
		c.Abort()
	}
	f.cancel()
	if f.listener != nil {
		f.listener.Close()
	}
	for _, s := range f.stops {
		s()
	}
	f.Net.CloseAll()
	f.UDP.CloseAll()
}

func (f *Fixture) String() string { return fmt.Sprintf("fixture(%s)", f.Kind) }
