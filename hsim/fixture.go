package hsim

import (
	"context"
	"fmt"
	"net"
	"sync"

	"github.com/hprose/hprose-golang/v3/rpc/core"
	"github.com/hprose/hprose-golang/v3/rpc/socket"
)

// Fixture wires a real core.Service and real core.Clients together through the
// simulated network by one transport.
type Fixture struct {
	Kind     string
	R        *Run
	Net      *Net
	Service  *core.Service
	URL      string
	Addr     string
	ctx      context.Context
	cancel   context.CancelFunc
	listener *Listener
	clients  []*core.Client
	pending  []func() (int, int)
	stops    []func()
}

var registerOnce sync.Once

func registerAll() {
	registerOnce.Do(func() {
		socket.RegisterTransport()
		socket.RegisterHandler()
		registerMore()
	})
}

// AllKinds lists the transports the fixture can wire up.
var AllKinds = []string{"socket"}

// HasConns reports whether the transport runs over simulated connections.
func (f *Fixture) HasConns() bool { return f.Kind != "mock" }

// StreamKinds are the transports that multiplex calls on one connection.
var StreamKinds = []string{"socket", "websocket", "udp"}

// NewFixture starts the server side of the given transport for service.
func NewFixture(r *Run, n *Net, kind string, service *core.Service) *Fixture {
	registerAll()
	f := &Fixture{Kind: kind, R: r, Net: n, Service: service}
	f.ctx, f.cancel = context.WithCancel(context.Background())
	switch kind {
	case "socket":
		f.Addr = "10.0.0.1:8412"
		f.URL = "tcp://" + f.Addr + "/"
		f.listener = n.Listen(f.Addr)
		h := &socket.Handler{Service: service}
		r.Sim.Task("srv", func() { h.BindContext(f.ctx, f.listener) })
		socket.VerifDial = func(ctx context.Context) (net.Conn, error) { return n.Dial(ctx, f.Addr) }
	default:
		if !f.startMore(kind) {
			panic("fixture: unknown transport kind " + kind)
		}
	}
	return f
}

// NewClient returns a real client for the fixture's URL.
func (f *Fixture) NewClient() *core.Client {
	c := core.NewClient(f.URL)
	f.clients = append(f.clients, c)
	switch f.Kind {
	case "socket":
		t := c.GetTransport("socket").(*socket.Transport)
		f.pending = append(f.pending, t.VerifPending)
	default:
		f.clientMore(c)
	}
	return c
}

// Pending sums pooled connections and pending entries over all clients.
func (f *Fixture) Pending() (conns, pending int) {
	for _, p := range f.pending {
		c, n := p()
		conns += c
		pending += n
	}
	return
}

// Shutdown stops the server side (listener, serving contexts) and aborts every
// client; to be called from a harness task, not from the controller.
func (f *Fixture) Shutdown() {
	for _, c := range f.clients {
		c.Abort()
	}
	f.cancel()
	if f.listener != nil {
		f.listener.Close()
	}
	for _, s := range f.stops {
		s()
	}
	f.Net.CloseAll()
}

func (f *Fixture) String() string { return fmt.Sprintf("fixture(%s)", f.Kind) }
