package hsim

// C08 A remote call returns what the service function returns, on every transport.

import (
	"context"
	"errors"
	"fmt"
	"math"
	"reflect"
	"sort"
	"strings"
	"time"

	hio "github.com/hprose/hprose-golang/v3/io"
	"github.com/hprose/hprose-golang/v3/rpc/core"
	"verifsim"
)

func init() { scenarios["C08"] = scenC08 }

// ---- the function catalogue (signature shapes of the property)

type c08log struct {
	entries []string
}

func (l *c08log) add(name string, args ...interface{}) {
	l.entries = append(l.entries, name+"("+c08render(args)+")")
}

type c08svc struct{ log *c08log }

func (s c08svc) Nop()                               { s.log.add("nop") }
func (s c08svc) Inc(x int) int                      { s.log.add("inc", x); return x + 1 }
func (s c08svc) Pair(a int, b string) (string, int) { s.log.add("pair", a, b); return b + "!", a * 2 }
func (s c08svc) Sum(xs ...int) int {
	s.log.add("sum", xs)
	t := 0
	for _, x := range xs {
		t += x
	}
	return t
}
func (s c08svc) Prefix(p string, xs ...string) []string {
	s.log.add("prefix", p, xs)
	out := make([]string, 0, len(xs))
	for _, x := range xs {
		out = append(out, p+x)
	}
	return out
}
func (s c08svc) Ctx(ctx context.Context, x int) int {
	s.log.add("ctx", x)
	if core.GetServiceContext(ctx) == nil {
		return -1
	}
	return x * 3
}
func (s c08svc) Fail(x int) (int, error) {
	s.log.add("fail", x)
	if x%2 == 1 {
		return x, fmt.Errorf("odd input %d", x)
	}
	return x / 2, nil
}
func (s c08svc) Boom(x int) int {
	s.log.add("boom", x)
	if x%3 == 0 {
		panic(fmt.Sprintf("boom %d", x))
	}
	return x
}
func (s c08svc) Outer(o *GOuter) *GOuter {
	s.log.add("outer", o)
	if o == nil {
		return nil
	}
	c := *o
	c.X++
	c.S = c.S + "#"
	return &c
}
func (s c08svc) Tagged(t GTagged) GTagged {
	s.log.add("tagged", t)
	t.ID++
	t.Raw = append(append([]byte(nil), t.Raw...), 9)
	return t
}
func (s c08svc) Map(m map[string]int) map[string]int {
	s.log.add("map", m)
	out := map[string]int{}
	for k, v := range m {
		out[k+"'"] = v + 1
	}
	return out
}
func (s c08svc) Strs(v []string) []string {
	s.log.add("strs", v)
	out := append([]string(nil), v...)
	sort.Strings(out)
	return out
}
func (s c08svc) Any(x interface{}) interface{} { s.log.add("any", x); return []interface{}{x, "tail"} }
func (s c08svc) Bytes(b []byte) []byte {
	s.log.add("bytes", b)
	out := make([]byte, len(b))
	for i := range b {
		out[i] = b[len(b)-1-i]
	}
	return out
}
func (s c08svc) Time(t time.Time) time.Time { s.log.add("time", t); return t.Add(time.Hour) }
func (s c08svc) Float(f float64) float64    { s.log.add("float", f); return f * 2 }
func (s c08svc) Three(x int) (int, string, float64) {
	s.log.add("three", x)
	return x, fmt.Sprint(x), float64(x) / 2
}
func (s c08svc) Big(str string, n int) string {
	s.log.add("big", len(str), n)
	return strings.Repeat(str, n)
}

// Echo3 returns its first argument twice: several results of which some repeat (references among results).
func (s c08svc) Echo3(a, b string) (string, string, string) { s.log.add("echo3", a, b); return a, b, a }

// Same hands its argument back: a nil interface{} result among others.
func (s c08svc) Same(x interface{}) interface{} { s.log.add("same", x); return x }

// Anys and Nils are about nil arguments: for every nilable parameter type, and in every variadic position.
func (s c08svc) Anys(xs ...interface{}) string {
	s.log.add("anys", xs)
	var p []string
	for _, x := range xs {
		if x == nil {
			p = append(p, "<nil>")
		} else {
			p = append(p, fmt.Sprintf("%v", x))
		}
	}
	return strings.Join(p, ",")
}
func (s c08svc) Nils(p *int, l []int, m map[string]int, x interface{}, e *GInner, tail ...string) string {
	s.log.add("nils", p, l, m, x, e, tail)
	d := fmt.Sprintf("p=%v l=%d m=%d x=%v e=%v tail=%d", p == nil, len(l), len(m), x == nil, e == nil, len(tail))
	if p != nil {
		d += fmt.Sprintf(" *p=%d", *p)
	}
	if e != nil {
		d += fmt.Sprintf(" e.B=%s", e.B)
	}
	return d
}

// c08NetRPC has methods of the net/rpc shape (args, *reply) error, published with AddNetRPCMethods. They build on
// what they find in the reply - which is a fresh zero value on every call.
type c08NetRPC struct{ log *c08log }

type C08Pair struct{ A, B int }

func (t *c08NetRPC) RpcAdd(p C08Pair, reply *int) error {
	t.log.add("rpcadd", p.A, p.B)
	*reply += p.A + p.B
	return nil
}
func (t *c08NetRPC) RpcWords(w string, reply *[]string) error {
	t.log.add("rpcwords", w)
	*reply = append(*reply, w)
	return nil
}

type c08proxy struct {
	Nop    func() error
	Inc    func(x int) (int, error)
	Pair   func(a int, b string) (string, int, error)
	Sum    func(xs ...int) (int, error)
	Prefix func(p string, xs ...string) ([]string, error)
	Ctx    func(x int) (int, error)
	Fail   func(x int) (int, error)
	Boom   func(x int) (int, error)
	Outer  func(o *GOuter) (*GOuter, error)
	Tagged func(t GTagged) (GTagged, error)
	Map    func(m map[string]int) (map[string]int, error)
	Strs   func(v []string) ([]string, error)
	Any    func(x interface{}) (interface{}, error)
	Bytes  func(b []byte) ([]byte, error)
	Time   func(t time.Time) (time.Time, error)
	Float  func(f float64) (float64, error)
	Three  func(x int) (int, string, float64, error)
	Big    func(str string, n int) (string, error)
	Same   func(x interface{}) (interface{}, error)
	Echo3  func(a, b string) (string, string, string, error)
	Anys   func(xs ...interface{}) (string, error)
	Nils   func(p *int, l []int, m map[string]int, x interface{}, e *GInner, tail ...string) (string, error)
	Absent func(x int, y string) (string, error) `name:"noSuchMethod"`
}

// c08nested: proxies nested two and three levels deep ("Deep_Er_Inc").
type c08nested struct {
	Deep struct {
		Inc func(x int) (int, error)
		Er  struct {
			Inc  func(x int) (int, error)
			Pair func(a int, b string) (string, int, error)
		}
	}
}

var c08Names = []string{"Nop", "Inc", "Pair", "Sum", "Prefix", "Ctx", "Fail", "Boom", "Outer", "Tagged", "Map", "Strs", "Any", "Bytes", "Time", "Float", "Three", "Big", "Anys", "Nils", "Same", "Echo3"}

func c08render(v interface{}) string {
	return renderNorm(reflect.ValueOf(v))
}

// renderNorm renders a value structurally with the format's own normalisations:
// nil and empty containers alike, numbers by value, pointers followed.
func renderNorm(rv reflect.Value) string {
	if !rv.IsValid() {
		return "nil"
	}
	switch rv.Kind() {
	case reflect.Ptr, reflect.Interface:
		if rv.IsNil() {
			return "nil"
		}
		return renderNorm(rv.Elem())
	case reflect.Struct:
		if t, ok := rv.Interface().(time.Time); ok {
			return t.UTC().Format(time.RFC3339Nano)
		}
		var p []string
		for i := 0; i < rv.NumField(); i++ {
			f := rv.Type().Field(i)
			if f.Tag.Get("hprose") == "-" {
				continue
			}
			p = append(p, f.Name+":"+renderNorm(rv.Field(i)))
		}
		return "{" + strings.Join(p, " ") + "}"
	case reflect.Slice, reflect.Array:
		if rv.Kind() == reflect.Slice && rv.Type().Elem().Kind() == reflect.Uint8 {
			return fmt.Sprintf("bytes%x", rv.Bytes())
		}
		var p []string
		for i := 0; i < rv.Len(); i++ {
			p = append(p, renderNorm(rv.Index(i)))
		}
		return "[" + strings.Join(p, " ") + "]"
	case reflect.Map:
		var p []string
		for _, k := range rv.MapKeys() {
			p = append(p, renderNorm(k)+":"+renderNorm(rv.MapIndex(k)))
		}
		sort.Strings(p)
		return "map[" + strings.Join(p, " ") + "]"
	case reflect.Int, reflect.Int8, reflect.Int16, reflect.Int32, reflect.Int64:
		return fmt.Sprint(rv.Int())
	case reflect.Uint, reflect.Uint8, reflect.Uint16, reflect.Uint32, reflect.Uint64, reflect.Uintptr:
		return fmt.Sprint(rv.Uint())
	case reflect.Float32, reflect.Float64:
		f := rv.Float()
		if f == math.Trunc(f) && math.Abs(f) < 1e15 {
			return fmt.Sprint(int64(f))
		}
		return fmt.Sprint(f)
	case reflect.String:
		return fmt.Sprintf("%q", rv.String())
	}
	return fmt.Sprint(rv.Interface())
}

type c08call struct {
	id      int
	name    string
	viaRaw  bool
	spell   string
	args    []interface{}
	rets    []reflect.Type
	got     []interface{}
	gotErr  error
	done    bool
	want    []interface{}
	wantErr string // "" = success
	logWant string
	// nestedPath: field path in the nested proxy (nil: the flat proxy)
	nestedPath []string
}

func scenC08(r *Run) {
	kind := AllKinds[r.Index%len(AllKinds)]
	if v, ok := r.Opt["kind"]; ok {
		kind = v
	}
	pool := r.PlanBool(2)
	ncallers := 1 + r.Plan(6)
	ns := r.PlanOf("", "", "math")
	r.Param("kind", kind)
	r.Param("pool", pool)
	r.Param("callers", ncallers)
	r.Param("namespace", ns)
	RegisterKind(kind)
	sim := r.StartSim(verifsim.Config{IdleCap: time.Hour, StepCap: 300000})
	// codec options drawn per run on both sides
	typedLists := false // ListTypeSlice on either side: lists in interface{} positions become typed slices
	mkOpts := func() ([]core.CodecOption, string) {
		simple := r.PlanBool(2)
		lt := []hio.LongType{hio.LongTypeInt, hio.LongTypeInt64, hio.LongTypeUint}[r.Plan(3)]
		mt := []hio.MapType{hio.MapTypeIIMap, hio.MapTypeSIMap}[r.Plan(2)]
		ltp := []hio.ListType{hio.ListTypeISlice, hio.ListTypeSlice}[r.Plan(2)]
		if ltp == hio.ListTypeSlice {
			typedLists = true
		}
		return []core.CodecOption{core.WithSimple(simple), core.WithLongType(lt), core.WithMapType(mt), core.WithListType(ltp)},
			fmt.Sprintf("simple=%v long=%d map=%d list=%d", simple, lt, mt, ltp)
	}
	service := core.NewService()
	so, sdesc := mkOpts()
	service.Codec = core.NewServiceCodec(so...)
	log := &c08log{}
	svc := c08svc{log}
	// publish every function under a tape-chosen spelling of its name
	spell := func(n string) string {
		switch r.Plan(4) {
		case 0:
			return strings.ToLower(n)
		case 1:
			return strings.ToUpper(n)
		case 2:
			return strings.ToLower(n[:1]) + n[1:]
		}
		return n
	}
	sv := reflect.ValueOf(svc)
	for _, n := range c08Names {
		alias := spell(n)
		if ns != "" {
			alias = ns + "_" + alias
		}
		service.AddFunction(sv.MethodByName(n).Interface(), alias)
	}
	// the same functions under nested names, for the nested proxy
	for _, nn := range [][2]string{{"Inc", "Deep_Inc"}, {"Inc", "Deep_Er_Inc"}, {"Pair", "Deep_Er_Pair"}} {
		alias := nn[1]
		if ns != "" {
			alias = ns + "_" + alias
		}
		service.AddFunction(sv.MethodByName(nn[0]).Interface(), alias)
	}
	if ns != "" {
		service.AddNetRPCMethods(&c08NetRPC{log}, ns)
	} else {
		service.AddNetRPCMethods(&c08NetRPC{log})
	}
	service.AddMissingMethod(func(name string, args []interface{}) ([]interface{}, error) {
		log.add("missing:"+name, args...)
		return []interface{}{"missing " + name + " " + fmt.Sprint(len(args))}, nil
	})
	fx := NewFixture(r, kind, service)
	if pool {
		fx.SetPool(&simPool{sim: sim})
	}
	client := fx.NewClient()
	client.Timeout = time.Hour
	co, cdesc := mkOpts()
	client.Codec = core.NewClientCodec(co...)
	r.Param("service_codec", sdesc)
	r.Param("client_codec", cdesc)
	proxy := &c08proxy{}
	if ns != "" {
		client.UseService(proxy, ns)
	} else {
		client.UseService(proxy)
	}
	pv := reflect.ValueOf(proxy).Elem()
	nested := &c08nested{}
	if ns != "" {
		client.UseService(nested, ns)
	} else {
		client.UseService(nested)
	}

	bigN := []int{1, 10, 100, 2000}
	if kind == "udp" {
		bigN = []int{1, 10, 100, 200} // a response must fit a datagram (65,499 bytes)
	}
	// generate the calls
	var calls []*c08call
	perCaller := 1 + r.Plan(3)
	id := 0
	genArgs := func(name string) []interface{} {
		switch name {
		case "Nop":
			return nil
		case "Inc", "Ctx", "Fail", "Boom", "Three":
			return []interface{}{int(genInts[r.Plan(12)])}
		case "Pair":
			return []interface{}{r.Plan(1000), r.genString()}
		case "Sum":
			n := r.Plan(5)
			a := make([]interface{}, n)
			for i := range a {
				a[i] = r.Plan(100)
			}
			return a
		case "Prefix":
			a := []interface{}{r.genString()}
			for i, n := 0, r.Plan(4); i < n; i++ {
				a = append(a, r.genString())
			}
			return a
		case "Outer":
			if r.PlanBool(5) {
				return []interface{}{(*GOuter)(nil)}
			}
			n := 5
			return []interface{}{&GOuter{X: r.Plan(100), In: &GInner{A: 1, B: r.genString()}, L: []int{1, 2}, M: map[string]float64{"k": 1.5}, S: r.genString(), T: time.Date(2022, 1, 2, 3, 4, 5, 0, time.UTC), P: &n}}
		case "Tagged":
			return []interface{}{GTagged{ID: int64(r.Plan(1000)), Score: 2.5, Skip: "local only", Raw: []byte(r.genString())}}
		case "Map":
			m := map[string]int{}
			for i, n := 0, r.Plan(4); i < n; i++ {
				m[r.genString()] = r.Plan(100)
			}
			return []interface{}{m}
		case "Strs":
			var v []string
			for i, n := 0, r.Plan(5); i < n; i++ {
				v = append(v, r.genString())
			}
			return []interface{}{v}
		case "Echo3":
			a := r.genString()
			if r.PlanBool(3) {
				return []interface{}{a, a}
			}
			return []interface{}{a, r.genString()}
		case "Same":
			switch r.Plan(4) {
			case 0:
				return []interface{}{r.genString()}
			case 1:
				return []interface{}{r.Plan(100000)}
			case 2:
				return []interface{}{true}
			}
			return []interface{}{nil}
		case "Any":
			if typedLists {
				// the option asks for homogeneous typed slices: a nil or mixed list is outside what it can represent
				return []interface{}{r.genString()}
			}
			switch r.Plan(4) {
			case 0:
				return []interface{}{r.genString()}
			case 1:
				return []interface{}{r.Plan(100000)}
			case 2:
				return []interface{}{[]interface{}{1, "two", true}}
			}
			return []interface{}{nil}
		case "Bytes":
			return []interface{}{[]byte(r.genString())}
		case "Time":
			return []interface{}{time.Date(2000+r.Plan(50), time.Month(1+r.Plan(12)), 1+r.Plan(28), r.Plan(24), r.Plan(60), r.Plan(60), 1000*r.Plan(1000), time.UTC)}
		case "Float":
			return []interface{}{genFloats[r.Plan(len(genFloats))]}
		case "Big":
			str, n := r.genString(), bigN[r.Plan(len(bigN))]
			if kind == "udp" && len(str)*n > 60000 {
				n = 60000 / (len(str) + 1)
			}
			return []interface{}{str, n}
		case "Anys":
			a := make([]interface{}, r.Plan(5))
			for i := range a {
				switch r.Plan(4) {
				case 0:
					a[i] = nil
				case 1:
					a[i] = r.Plan(1000)
				case 2:
					a[i] = r.genString()
				default:
					a[i] = r.PlanBool(2)
				}
			}
			return a
		case "Nils":
			a := []interface{}{nil, nil, nil, nil, nil}
			if r.PlanBool(2) {
				n := r.Plan(100)
				a[0] = &n
			}
			if r.PlanBool(2) {
				a[1] = []int{1, 2, 3}
			}
			if r.PlanBool(2) {
				a[2] = map[string]int{"k": 1}
			}
			if r.PlanBool(2) {
				a[3] = r.genString()
			}
			if r.PlanBool(2) {
				a[4] = &GInner{A: 2, B: r.genString()}
			}
			for i, n := 0, r.Plan(3); i < n; i++ {
				a = append(a, r.genString())
			}
			return a
		case "RpcAdd":
			return []interface{}{C08Pair{A: r.Plan(1000), B: r.Plan(1000)}}
		case "RpcWords":
			return []interface{}{r.genString()}
		case "Absent":
			return []interface{}{r.Plan(10), "y"}
		}
		return nil
	}
	names := append(append([]string{}, c08Names...), "Absent", "Deep.Inc", "Deep.Er.Inc", "Deep.Er.Pair", "RpcAdd", "RpcWords")
	for c := 0; c < ncallers*perCaller; c++ {
		id++
		n := names[r.Plan(len(names))]
		cl := &c08call{id: id, name: n, viaRaw: r.PlanBool(3), args: genArgs(n)}
		if strings.Contains(n, ".") {
			// a nested proxy field: same function as its last path element, always through the proxy
			cl.nestedPath = strings.Split(n, ".")
			cl.name = cl.nestedPath[len(cl.nestedPath)-1]
			cl.args = genArgs(cl.name)
			cl.viaRaw = false
		}
		calls = append(calls, cl)
	}
	// local reference: the same function, called directly on a deep copy of the arguments
	refLog := &c08log{}
	refSvc := reflect.ValueOf(c08svc{refLog})
	for _, cl := range calls {
		if cl.name == "RpcAdd" || cl.name == "RpcWords" {
			// reference: the method on a fresh zero reply
			ref := &c08NetRPC{refLog}
			before := len(refLog.entries)
			if cl.name == "RpcAdd" {
				var reply int
				ref.RpcAdd(cl.args[0].(C08Pair), &reply)
				cl.want, cl.rets = []interface{}{reply}, []reflect.Type{reflect.TypeOf(0)}
			} else {
				var reply []string
				ref.RpcWords(cl.args[0].(string), &reply)
				cl.want, cl.rets = []interface{}{reply}, []reflect.Type{reflect.TypeOf([]string(nil))}
			}
			cl.logWant = refLog.entries[before]
			cl.viaRaw = true
			continue
		}
		if cl.name == "Absent" {
			cl.want = []interface{}{fmt.Sprintf("missing noSuchMethod %d", len(cl.args))}
			cl.logWant = "missing:noSuchMethod(" + c08render(cl.args) + ")"
			cl.rets = []reflect.Type{reflect.TypeOf("")}
			continue
		}
		m := refSvc.MethodByName(cl.name)
		mt := m.Type()
		in := make([]reflect.Value, 0, len(cl.args)+1)
		if cl.name == "Ctx" {
			in = append(in, reflect.ValueOf(core.WithContext(context.Background(), core.NewServiceContext(service))))
		}
		for _, a := range c08copy(cl.args) {
			if a == nil {
				if k := len(in); mt.IsVariadic() && k >= mt.NumIn()-1 {
					in = append(in, reflect.Zero(mt.In(mt.NumIn()-1).Elem()))
				} else {
					in = append(in, reflect.Zero(mt.In(k)))
				}
			} else {
				in = append(in, reflect.ValueOf(a))
			}
		}
		before := len(refLog.entries)
		func() {
			defer func() {
				if p := recover(); p != nil {
					cl.wantErr = fmt.Sprint(p)
				}
			}()
			out := m.Call(in)
			for i, o := range out {
				if mt.Out(i) == reflect.TypeOf((*error)(nil)).Elem() {
					if !o.IsNil() {
						cl.wantErr = o.Interface().(error).Error()
					}
					continue
				}
				cl.want = append(cl.want, o.Interface())
				cl.rets = append(cl.rets, mt.Out(i))
			}
		}()
		cl.logWant = refLog.entries[before]
	}
	// run them: each caller task takes a slice of the calls
	fin := 0
	for c := 0; c < ncallers; c++ {
		mine := calls[c*perCaller : (c+1)*perCaller]
		sim.Task(fmt.Sprintf("caller%d", c), func() {
			defer func() { fin++ }()
			for _, cl := range mine {
				sim.Event("call", cl.id, cl.name, cl.viaRaw)
				args := c08copy(cl.args)
				if cl.viaRaw {
					name := cl.name
					if cl.name == "Absent" {
						name = "noSuchMethod"
					}
					switch r.Tape.Choose(verifsim.StreamSched, 3) {
					case 0:
						name = strings.ToLower(name)
					case 1:
						name = strings.ToUpper(name)
					}
					if ns != "" {
						name = ns + "_" + name
					}
					cl.spell = name
					cc := core.NewClientContext()
					cc.ReturnType = cl.rets
					if cc.ReturnType == nil {
						cc.ReturnType = []reflect.Type{} // declared: no results (nil would mean "one interface{}")
					}
					cl.got, cl.gotErr = client.InvokeContext(core.WithContext(context.Background(), cc), name, args)
				} else {
					f := pv.FieldByName(cl.name)
					if cl.nestedPath != nil {
						f = reflect.ValueOf(nested).Elem()
						for _, p := range cl.nestedPath {
							f = f.FieldByName(p)
						}
					}
					in := make([]reflect.Value, len(args))
					ft := f.Type()
					for i, a := range args {
						if a == nil {
							k := i
							if ft.IsVariadic() && k >= ft.NumIn()-1 {
								in[i] = reflect.Zero(ft.In(ft.NumIn() - 1).Elem())
							} else {
								in[i] = reflect.Zero(ft.In(k))
							}
						} else {
							in[i] = reflect.ValueOf(a)
						}
					}
					out := f.Call(in)
					for i, o := range out {
						if i == len(out)-1 {
							if !o.IsNil() {
								cl.gotErr = o.Interface().(error)
							}
						} else {
							cl.got = append(cl.got, o.Interface())
						}
					}
				}
				cl.done = true
				sim.Event("return", cl.id, len(cl.got), fmt.Sprint(cl.gotErr))
			}
		})
	}
	st := sim.Drive(func() bool { return fin == ncallers })
	if sim.Failure() != nil {
		return
	}
	if st != verifsim.Done {
		if st == verifsim.StepCap {
			r.Res.Verdict = "inconclusive"
			return
		}
		r.Fail("C08:call-never-returns:"+kind, "status %v on a benign network; parked %v", st, sim.ParkedNames())
		return
	}
	// oracle
	used := map[int]bool{}
	for _, cl := range calls {
		how := "proxy"
		if cl.viaRaw {
			how = "invoke " + cl.spell
		}
		desc := fmt.Sprintf("call %d %s(%s) via %s over %s [client %s; service %s; pool %v]", cl.id, cl.name, c08render(cl.args), how, kind, cdesc, sdesc, pool)
		if cl.wantErr != "" {
			if cl.gotErr == nil {
				r.Fail("C08:error-lost:"+cl.name+":"+kind, "%s: the function fails locally with %q, remotely it returned %s without error", desc, cl.wantErr, c08render(cl.got))
				return
			}
			if !strings.Contains(cl.gotErr.Error(), cl.wantErr) {
				r.Fail("C08:error-message-differs:"+cl.name+":"+kind, "%s: local error %q, remote error %q", desc, cl.wantErr, cl.gotErr.Error())
				return
			}
		} else {
			if cl.gotErr != nil {
				r.Fail("C08:unexpected-error:"+cl.name+":"+kind, "%s: succeeds locally, remotely: %v", desc, cl.gotErr)
				return
			}
			got, want := c08render(cl.got), c08render(cl.want)
			if cl.name == "Absent" {
				// the missing-method handler is told the name as it was sent
				got = strings.Replace(strings.ToLower(got), strings.ToLower(ns+"_"), "", 1)
				want = strings.ToLower(want)
			}
			if got != want {
				r.Fail("C08:result-differs:"+cl.name+":"+kind, "%s:\n local:  %s\n remote: %s", desc, clipS(want, 400), clipS(got, 400))
				return
			}
		}
		// exactly one execution with equal arguments
		found := -1
		for i, e := range log.entries {
			if cl.name == "Absent" {
				e = strings.Replace(strings.ToLower(e), strings.ToLower(ns+"_"), "", 1)
				cl.logWant = strings.ToLower(cl.logWant)
			}
			if !used[i] && e == cl.logWant {
				found = i
				break
			}
		}
		if found < 0 {
			r.Fail("C08:not-executed-with-these-arguments:"+cl.name+":"+kind, "%s: no matching execution in the service's log (expected %s); log: %v", desc, clipS(cl.logWant, 300), clipS(fmt.Sprint(log.entries), 600))
			return
		}
		used[found] = true
	}
	if len(log.entries) != len(calls) {
		r.Fail("C08:execution-count:"+kind, "%d calls completed, the service executed %d functions: %v", len(calls), len(log.entries), clipS(fmt.Sprint(log.entries), 600))
	}
	_ = errors.New
}

func clipS(s string, n int) string {
	if len(s) > n {
		return s[:n] + "..."
	}
	return s
}

// c08copy deep-copies argument values (through reflection for the few shapes used).
func c08copy(args []interface{}) []interface{} {
	out := make([]interface{}, len(args))
	for i, a := range args {
		switch v := a.(type) {
		case *GOuter:
			if v == nil {
				out[i] = v
				continue
			}
			c := *v
			if v.In != nil {
				in := *v.In
				c.In = &in
			}
			c.L = append([]int(nil), v.L...)
			c.M = map[string]float64{}
			for k, x := range v.M {
				c.M[k] = x
			}
			if v.P != nil {
				p := *v.P
				c.P = &p
			}
			out[i] = &c
		case GTagged:
			v.Raw = append([]byte(nil), v.Raw...)
			out[i] = v
		case map[string]int:
			m := map[string]int{}
			for k, x := range v {
				m[k] = x
			}
			out[i] = m
		case []string:
			out[i] = append([]string(nil), v...)
		case []byte:
			out[i] = append([]byte(nil), v...)
		case []interface{}:
			out[i] = append([]interface{}(nil), v...)
		default:
			out[i] = a
		}
	}
	return out
}
