package hsim

// C20 The circuit breaker stops forwarding while open and recovers afterwards.

import (
	"context"
	"errors"
	"fmt"
	"math"
	"strings"
	"time"

	"github.com/anishathalye/porcupine"
	"github.com/hprose/hprose-golang/v3/rpc/core"
	"github.com/hprose/hprose-golang/v3/rpc/plugins/circuitbreaker"
	"verifsim"
)

func init() { scenarios["C20"] = scenC20 }

const c20Recover = time.Second

// c20model is the envelope of DESIGN.md appendix A.5.
type c20model struct {
	threshold int
	recover   int64 // recovery time, ns
	streak    int   // failures of forwarded calls since the last success
	last      int64 // time of the latest failure (ns of fake time)
	hasLast   bool
	budget    int // forwarded failures still tolerated after a recovery
}

// decide returns (mustForward, mustReject) for a call entering at now and
// applies the state change of the recovery branch.
func (m *c20model) decide(now int64) (mustForward, mustReject bool) {
	if m.streak <= m.threshold {
		return true, false
	}
	if !m.hasLast || now-m.last >= m.recover {
		m.budget = m.threshold + 1
		return true, false
	}
	if m.budget == 0 {
		return false, true
	}
	return false, false
}

func (m *c20model) exit(success bool, now int64) {
	if success {
		m.streak, m.budget = 0, 0
		return
	}
	m.streak++
	m.last, m.hasLast = now, true
	if m.budget > 0 {
		m.budget--
	}
}

type c20key struct{}

type c20call struct {
	id        int
	outcome   byte
	forwarded bool
	enterSeq  uint64
	leaveSeq  uint64
	leaveAt   int64
	service   time.Duration
}

func scenC20(r *Run) {
	mode := []string{"enumerate", "enumerate", "long", "concurrent", "enumerate", "concurrent"}[r.Index%6]
	sub := r.Index / 6
	// enumerate runs count through their own index, so that consecutive enumerate runs cover consecutive blocks
	enumIdx := sub*3 + map[int]int{0: 0, 1: 1, 4: 2}[r.Index%6]
	if v, ok := r.Opt["mode"]; ok {
		mode = v
		sub = r.Index
		enumIdx = r.Index
	}
	r.Param("mode", mode)
	RegisterKind("mock")
	sim := r.StartSim(verifsim.Config{IdleCap: 1000 * time.Hour, StepCap: 400000, GapChoices: smallGaps, PCTSteps: 300}, "rpc/plugins/circuitbreaker")
	thresholds := []int{0, 1, 2, 5}
	// recovery time: ordinary, "effectively zero" and "effectively infinite"
	recovers := []time.Duration{c20Recover, time.Nanosecond, time.Duration(math.MaxInt64)}
	var threshold int
	var withMock bool
	rec := c20Recover
	deep := true // enumerate: the ordinary recovery time gets the deep enumeration, the two extremes a shallow one
	if mode == "enumerate" {
		if enumIdx%3 == 2 {
			deep = false
			e := enumIdx / 3
			threshold, withMock, rec = thresholds[e%4], (e/4)%2 == 1, recovers[1+(e/8)%2]
			sub = e / 16
		} else {
			e := enumIdx/3*2 + enumIdx%3
			threshold, withMock = thresholds[e%4], (e/4)%2 == 1
			sub = e / 8
		}
	} else {
		threshold = thresholds[sub%4]
		sub /= 4
		withMock = sub%2 == 1
		sub /= 2
		rec = []time.Duration{c20Recover, c20Recover, c20Recover, recovers[1], recovers[2]}[sub%5]
		sub /= 5
	}
	r.Param("threshold", threshold)
	r.Param("mock_service", withMock)
	r.Param("recovery", rec.String())
	downstream := 0
	// what a failing downstream says: in a third of the runs the very words of the breaker's own error (a server
	// behind it whose breaker is open) - still a failure of a forwarded call, not a rejection by this breaker
	errText := "downstream failure"
	if r.Plan(3) == 0 {
		errText = circuitbreaker.ErrBreaker.Error()
	}
	r.Param("downstream_error", errText)
	cancelledCallers := r.Plan(5) == 0
	r.Param("cancelled_callers", cancelledCallers)
	mkClient := func() (*core.Client, *circuitbreaker.CircuitBreaker) {
		opts := []circuitbreaker.Option{circuitbreaker.WithThreshold(uint64(threshold)), circuitbreaker.WithRecoverTime(rec)}
		if withMock {
			opts = append(opts, circuitbreaker.WithMockService(func(ctx context.Context, name string, args []interface{}) ([]interface{}, error) {
				return []interface{}{"from-mock"}, nil
			}))
		}
		cb := circuitbreaker.New(opts...)
		client := core.NewClient("mock://nowhere")
		client.Timeout = time.Hour
		client.Use(cb, core.IOHandler(func(ctx context.Context, request []byte, next core.NextIOHandler) ([]byte, error) {
			c := ctx.Value(c20key{}).(*c20call)
			downstream++
			c.forwarded = true
			c.enterSeq = sim.Event("forwarded", c.id)
			if c.service > 0 {
				time.Sleep(c.service)
				verifsim.ForceYield(-60)
			} else {
				verifsim.Yield(-61)
			}
			c.leaveAt = int64(sim.Now())
			c.leaveSeq = sim.Event("downstream-done", c.id, string(c.outcome))
			switch c.outcome {
			case 'E':
				return nil, errors.New(errText)
			case 'P':
				panic("downstream panic")
			}
			return []byte(`Rs2"ok"z`), nil
		}))
		return client, cb
	}
	// one call; returns what the caller saw
	invoke := func(client *core.Client, c *c20call) (res []interface{}, err error) {
		defer func() {
			if p := recover(); p != nil {
				err = fmt.Errorf("panic escaped: %v", p)
			}
		}()
		ctx := context.WithValue(context.Background(), c20key{}, c)
		if cancelledCallers {
			// the caller has given up already: a rejection is still the breaker's answer (break error or mock service)
			var cancel context.CancelFunc
			ctx, cancel = context.WithCancel(ctx)
			cancel()
		}
		return client.InvokeContext(ctx, "f", nil)
	}
	// checkReject verifies what a rejected call must look like
	rejectedOK := func(res []interface{}, err error) bool {
		if withMock {
			return err == nil && len(res) == 1 && fmt.Sprint(res[0]) == "from-mock"
		}
		return err == circuitbreaker.ErrBreaker || (err != nil && err.Error() == circuitbreaker.ErrBreaker.Error())
	}
	// the advances a script may make between calls, relative to the recovery time
	advances := []time.Duration{0, rec - 1, rec, 2 * rec, rec / 2}
	switch rec {
	case time.Nanosecond:
		advances = []time.Duration{0, time.Nanosecond, 2 * time.Nanosecond, time.Second, time.Microsecond}
	case time.Duration(math.MaxInt64):
		advances = []time.Duration{0, time.Second, time.Hour, 500 * time.Hour, 24 * time.Hour}
	}
	runScript := func(script []int) bool {
		// script element = outcome*len(advances) + advance
		client, _ := mkClient()
		m := &c20model{threshold: threshold, recover: int64(rec)}
		var hist []string
		for i, s := range script {
			adv := advances[s%len(advances)]
			out := "SEP"[s/len(advances)]
			if adv > 0 {
				time.Sleep(adv)
				verifsim.ForceYield(-62)
			}
			now := int64(sim.Now())
			mustF, mustR := m.decide(now)
			c := &c20call{id: i + 1, outcome: out}
			before := downstream
			res, err := invoke(client, c)
			fw := downstream > before
			hist = append(hist, fmt.Sprintf("+%v %c->%s", adv, out, map[bool]string{true: "forwarded", false: "rejected"}[fw]))
			cls := ""
			switch {
			case downstream-before > 1:
				cls = "forwarded-twice"
			case mustF && !fw:
				cls = "rejected-while-it-should-be-closed"
			case mustR && fw:
				cls = "forwarded-while-it-should-be-open"
			case !fw && !rejectedOK(res, err):
				cls = "rejected-call-wrong-result"
			case fw && out == 'S' && (err != nil || len(res) != 1 || fmt.Sprint(res[0]) != "ok"):
				cls = "forwarded-success-wrong-result"
			case fw && out != 'S' && err == nil:
				cls = "forwarded-failure-reported-as-success"
			}
			if cls != "" {
				r.Fail("C20:"+cls+":"+mode, "threshold %d, recovery %v, mock service %v; history (advance outcome->decision): %v; model before the last call: %d consecutive failures, budget %d; result %v err %v", threshold, rec, withMock, hist, m.streak, m.budget, res, err)
				return false
			}
			if fw {
				m.exit(out == 'S', int64(sim.Now()))
			}
		}
		r.Res.Cases++
		return true
	}
	switch mode {
	case "enumerate":
		// all scripts over 3 outcomes x 4 advances (the fifth advance only in "long"), by
		// mixed-radix index; this run covers a block
		const base = 12
		maxLen := 6
		if !deep {
			maxLen = 4
		}
		per := 250
		total := 0
		pow := 1
		var offsets []int
		for l := 1; l <= maxLen; l++ {
			pow *= base
			offsets = append(offsets, total)
			total += pow
		}
		nblocks := (total + per - 1) / per
		block := sub % nblocks
		r.Param("scripts", fmt.Sprintf("block %d of %d (%d scripts of length 1-%d)", block, nblocks, total, maxLen))
		done := false
		sim.Task("scripts", func() {
			defer func() { done = true }()
			for k := block * per; k < (block+1)*per && k < total; k++ {
				l := 1
				for l < maxLen && k >= offsets[l] {
					l++
				}
				idx := k - offsets[l-1]
				script := make([]int, l)
				for i := 0; i < l; i++ {
					d := idx % base
					idx /= base
					script[i] = (d/4)*len(advances) + d%4
				}
				if !runScript(script) {
					return
				}
			}
		})
		sim.Drive(func() bool { return done })
	case "long":
		done := false
		sim.Task("scripts", func() {
			defer func() { done = true }()
			for k := 0; k < 30; k++ {
				n := 7 + r.Plan(20)
				script := make([]int, n)
				// failure-heavy, so that the breaker opens and re-opens
				for i := range script {
					script[i] = []int{0, 1, 1, 1, 2, 2}[r.Plan(6)]*len(advances) + []int{0, 0, 0, 1, 2, 3, 4}[r.Plan(7)]
				}
				if !runScript(script) {
					return
				}
			}
		})
		sim.Drive(func() bool { return done })
	case "concurrent":
		c20Concurrent(r, sim, threshold, rec, withMock, mkClient, invoke, rejectedOK)
	}
}

type c20op struct {
	kind    string // enter | exit
	now     int64
	forward bool
	success bool
	call    int
}

func c20Concurrent(r *Run, sim *verifsim.Sim, threshold int, rec time.Duration, withMock bool,
	mkClient func() (*core.Client, *circuitbreaker.CircuitBreaker),
	invoke func(*core.Client, *c20call) ([]interface{}, error), rejectedOK func([]interface{}, error) bool) {
	client, _ := mkClient()
	ncallers := 2 + r.Plan(3)
	var ops []porcupine.Operation
	fin := 0
	id := 0
	for t := 0; t < ncallers; t++ {
		t := t
		n := 2 + r.Plan(5)
		var mine []*c20call
		var gaps []time.Duration
		for i := 0; i < n; i++ {
			id++
			mine = append(mine, &c20call{id: id, outcome: "SEEPE"[r.Plan(5)], service: r.PlanDur(0, 0, time.Millisecond, c20Recover/2, c20Recover)})
			if rec == c20Recover {
				gaps = append(gaps, r.PlanDur(0, 0, time.Millisecond, c20Recover/2, c20Recover, 2*c20Recover))
			} else {
				gaps = append(gaps, r.PlanDur(0, 0, time.Nanosecond, time.Millisecond, time.Hour))
			}
		}
		sim.Task(fmt.Sprintf("caller%d", t), func() {
			defer func() { fin++ }()
			for i, c := range mine {
				if gaps[i] > 0 {
					time.Sleep(gaps[i])
					verifsim.ForceYield(-63)
				}
				now := int64(sim.Now())
				inv := sim.Event("call", c.id)
				res, err := invoke(client, c)
				ret := sim.Event("return", c.id, fmt.Sprint(res), fmt.Sprint(err))
				if !c.forwarded {
					if !rejectedOK(res, err) {
						r.Fail("C20:rejected-call-wrong-result:concurrent", "call %d was not forwarded and returned %v %v", c.id, res, err)
						return
					}
					ops = append(ops, porcupine.Operation{ClientId: t, Input: c20op{kind: "enter", now: now, call: c.id}, Call: int64(inv), Output: false, Return: int64(ret)})
					continue
				}
				ops = append(ops, porcupine.Operation{ClientId: t, Input: c20op{kind: "enter", now: now, call: c.id}, Call: int64(inv), Output: true, Return: int64(c.enterSeq)})
				ops = append(ops, porcupine.Operation{ClientId: t, Input: c20op{kind: "exit", now: c.leaveAt, success: c.outcome == 'S', call: c.id}, Call: int64(c.leaveSeq), Output: true, Return: int64(ret)})
			}
		})
	}
	st := sim.Drive(func() bool { return fin == ncallers })
	if sim.Failure() != nil {
		return
	}
	if st != verifsim.Done {
		r.Fail("C20:stuck:concurrent", "status %v; parked %v", st, sim.ParkedNames())
		return
	}
	type state struct {
		streak, budget int
		last           int64
		hasLast        bool
	}
	model := porcupine.Model{
		Init: func() interface{} { return state{} },
		Step: func(st, input, output interface{}) (bool, interface{}) {
			s := st.(state)
			in := input.(c20op)
			m := &c20model{threshold: threshold, recover: int64(rec), streak: s.streak, budget: s.budget, last: s.last, hasLast: s.hasLast}
			if in.kind == "enter" {
				mustF, mustR := m.decide(in.now)
				fw := output.(bool)
				if (mustF && !fw) || (mustR && fw) {
					return false, s
				}
				return true, state{m.streak, m.budget, m.last, m.hasLast}
			}
			m.exit(in.success, in.now)
			return true, state{m.streak, m.budget, m.last, m.hasLast}
		},
		Equal: func(a, b interface{}) bool { return a.(state) == b.(state) },
	}
	res := porcupine.CheckOperationsTimeout(model, ops, 20*time.Second)
	sim.Probes["porcupine-"+string(res)]++
	if res == porcupine.Unknown {
		r.Res.Verdict = "inconclusive"
		return
	}
	if res == porcupine.Illegal {
		var d []string
		for _, o := range ops {
			in := o.Input.(c20op)
			if in.kind == "enter" {
				d = append(d, fmt.Sprintf("[%d,%d] call %d enters at t=%v: %s", o.Call, o.Return, in.call, time.Duration(in.now), map[bool]string{true: "forwarded", false: "rejected"}[o.Output.(bool)]))
			} else {
				d = append(d, fmt.Sprintf("[%d,%d] call %d ends at t=%v: success=%v", o.Call, o.Return, in.call, time.Duration(in.now), in.success))
			}
		}
		r.Fail("C20:not-linearizable:concurrent", "threshold %d, recovery %v: no order of the overlapping calls' entries and exits fits the breaker's must-forward / must-reject envelope:\n %s", threshold, rec, strings.Join(d, "\n "))
	}
}
