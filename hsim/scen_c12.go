package hsim

// C12 Transports deliver exactly the bytes that were sent, or nothing.

import (
	"bytes"
	"context"
	"encoding/binary"
	"fmt"
	"net"
	"strings"
	"time"

	"github.com/hprose/hprose-golang/v3/rpc/core"
	"github.com/hprose/hprose-golang/v3/rpc/socket"
	"github.com/hprose/hprose-golang/v3/rpc/udp"
	"verifsim"
)

func init() { scenarios["C12"] = scenC12 }

// payload returns n bytes attributable to message id: a PRNG stream keyed by
// the id; every fifth message starts with bytes that look like a frame header.
func payload(id int, n int) []byte {
	b := make([]byte, n)
	x := verifsim.Mix(uint64(id), 0xC12)
	for i := range b {
		if i%8 == 0 {
			x = verifsim.Mix(x, uint64(i))
		}
		b[i] = byte(x >> (8 * uint(i%8)))
	}
	if id%5 == 0 && n >= 12 {
		copy(b, sockHeader(n-12, uint32(id)))
	}
	if id%5 == 1 && n >= 8 {
		copy(b, udpHeader(n-8, uint16(id)))
	}
	return b
}

var c12Lengths = []int{0, 1, 3, 4, 5, 7, 8, 9, 11, 12, 13, 16, 100, 255, 256, 257, 511, 512, 513, 1023, 1024, 1025,
	4095, 4096, 4097, 8191, 8192, 8193, 16384, 32768, 65491, 65499, 65500, 65507, 65535, 65536, 65537, 100000, 131072}

type c12state struct {
	handlerKept [][]byte // the very slices the handler was handed
	r          *Run
	kind, mode string
	sentC2S    [][]byte // complete, consistent messages sent towards the service
	sentS2C    [][]byte // complete responses produced by the service / intended by the raw server
	handlerSaw [][]byte
	nextResp   int
	respLen    func() int
}

func (st *c12state) in(set [][]byte, m []byte) bool {
	for _, s := range set {
		if bytes.Equal(s, m) {
			return true
		}
	}
	return false
}

func describeBytes(m []byte) string {
	if len(m) > 24 {
		return fmt.Sprintf("%d bytes %x...%x", len(m), m[:12], m[len(m)-8:])
	}
	return fmt.Sprintf("%d bytes %x", len(m), m)
}

// explain says how a delivered message relates to what was sent.
func (st *c12state) explain(set [][]byte, m []byte) string {
	for _, s := range set {
		if len(m) < len(s) && bytes.Equal(s[:len(m)], m) {
			return "truncated"
		}
		if len(m) > len(s) && len(s) > 0 && bytes.Equal(m[:len(s)], s) {
			rest := m[len(s):]
			if len(bytes.Trim(rest, "\x00")) == 0 {
				return "zero-padded"
			}
			return "completed-with-foreign-bytes"
		}
	}
	if len(bytes.Trim(m, "\x00")) == 0 {
		return "all-zero"
	}
	return "not-sent"
}

func (st *c12state) echoHandler(ctx context.Context, request []byte, next core.NextIOHandler) ([]byte, error) {
	st.handlerSaw = append(st.handlerSaw, append([]byte(nil), request...))
	// a handler may keep what it was handed (a log, an audit queue): the slice itself is remembered too
	st.handlerKept = append(st.handlerKept, request)
	st.r.Sim.Event("handler-saw", len(request))
	st.nextResp++
	resp := payload(100000+st.nextResp, st.respLen())
	st.sentS2C = append(st.sentS2C, resp)
	return resp, nil
}

func (st *c12state) checkHandler() bool {
	for i, m := range st.handlerSaw {
		if i < len(st.handlerKept) && !bytes.Equal(st.handlerKept[i], m) {
			st.r.Fail("C12:request-bytes-changed-after-the-handler-returned:"+st.mode+":"+st.kind, "request %d: the slice handed to the service's IO handler held %s when the handler ran and reads %s now: the transport reused its buffer", i+1, describeBytes(m), describeBytes(st.handlerKept[i]))
			return false
		}
		if !st.in(st.sentC2S, m) {
			st.r.Fail("C12:handler-saw-"+st.explain(st.sentC2S, m)+":"+st.mode+":"+st.kind, "the service's IO handler was handed %s, which is not one of the %d messages sent", describeBytes(m), len(st.sentC2S))
			return false
		}
	}
	return true
}

func clientCtx(client *core.Client) context.Context {
	cc := core.NewClientContext()
	cc.Init(client)
	return core.WithContext(context.Background(), cc)
}

func scenC12(r *Run) {
	modes := []string{"benign", "hdr-srv", "benign", "hdr-cli", "werr", "len-srv", "benign", "len-cli", "benign", "http-cut", "werr", "udp-stale"}
	mode := modes[r.Index%len(modes)]
	sub := r.Index / len(modes)
	if v, ok := r.Opt["mode"]; ok {
		mode = v
		sub = r.Index
	}
	var kinds []string
	switch mode {
	case "benign":
		kinds = AllKinds
	case "werr":
		kinds = []string{"socket", "websocket", "socket", "websocket-fast", "socket", "http", "fasthttp"}
	case "http-cut":
		kinds = []string{"http", "fasthttp"}
	case "udp-stale":
		kinds = []string{"udp"}
	default:
		kinds = []string{"socket", "udp"}
	}
	kind := kinds[sub%len(kinds)]
	sub /= len(kinds)
	if v, ok := r.Opt["kind"]; ok {
		kind = v
	}
	r.Param("mode", mode)
	r.Param("kind", kind)
	RegisterKind(kind)
	sim := r.StartSim(verifsim.Config{IdleCap: time.Hour, StepCap: 100000})
	st := &c12state{r: r, kind: kind, mode: mode}
	maxLen := 131072
	if kind == "udp" {
		maxLen = 65499
	}
	st.respLen = func() int {
		for {
			n := c12Lengths[1+(st.nextResp*7+sub)%(len(c12Lengths)-1)]
			if n <= maxLen {
				return n
			}
			st.nextResp++
		}
	}
	switch mode {
	case "benign", "werr":
		c12Benign(r, sim, st, sub, maxLen)
	case "hdr-srv", "len-srv", "udp-stale", "http-cut":
		c12ServerSide(r, sim, st, sub)
	case "hdr-cli", "len-cli":
		c12ClientSide(r, sim, st, sub)
	}
}

var bigRespPtr *bool

func c12Benign(r *Run, sim *verifsim.Sim, st *c12state, sub, maxLen int) {
	service := core.NewService()
	service.Use(st.echoHandler)
	fx := NewFixture(r, st.kind, service)
	client := fx.NewClient()
	client.Timeout = time.Hour
	small := st.respLen
	st.respLen = func() int {
		if bigRespPtr != nil && *bigRespPtr && st.nextResp == 1 {
			return 1<<24 + 77
		}
		return small()
	}
	nreq := 1 + r.Plan(4)
	per := 1 + r.Plan(3)
	werr := st.mode == "werr"
	if werr {
		// one write on the first connection fails half way (as when a write deadline expires): the bytes written so
		// far are on their way, the connection stays open. Requests may fail; nobody may ever be handed bytes that
		// were not sent as one message.
		client.Timeout = 5 * time.Second
		dir := r.PlanOf("c2s", "c2s", "s2c")
		off := []int{0, 1, 4, 8, 11, 12, 13, 16, 20, 40, 100, 150, 200, 300, 600}[r.Plan(15)]
		fx.Net.AddFault(0, dir, off, "writeerr")
		r.Param("case", fmt.Sprintf("write error %s after %d bytes", dir, off))
		if nreq*per < 2 {
			per = 2
		}
	}
	bigResp := false
	bigRespPtr = &bigResp
	type rq struct {
		id        int
		req, resp []byte
		err       error
		done      bool
	}
	var all []*rq
	id := sub * 31
	for i := 0; i < nreq; i++ {
		var mine []*rq
		for j := 0; j < per; j++ {
			id++
			n := c12Lengths[(id*5+r.Plan(len(c12Lengths)))%len(c12Lengths)]
			if n > maxLen {
				n = maxLen - (id % 3)
			}
			if werr && n > 2000 {
				n = 2000 - id%7
			}
			if st.kind == "socket" && i == 0 && j == 0 && sub%6 == 0 && !werr {
				// the length field is 31 bits wide: cross the 2^16 and 2^24 byte boundaries too
				n = []int{1<<24 - 1, 1 << 24, 1<<24 + 5, 1<<24 + 1<<23 + 123}[(sub/6)%4]
				bigResp = true
			}
			q := &rq{id: id, req: payload(id, n)}
			mine = append(mine, q)
			all = append(all, q)
			st.sentC2S = append(st.sentC2S, q.req)
		}
		sim.Task(fmt.Sprintf("req%02d", i), func() {
			for _, q := range mine {
				sim.Event("request", q.id, len(q.req))
				q.resp, q.err = client.Request(clientCtx(client), append([]byte(nil), q.req...))
				q.done = true
				sim.Event("response", q.id, len(q.resp), fmt.Sprint(q.err))
			}
		})
	}
	status := sim.Drive(func() bool {
		for _, q := range all {
			if !q.done {
				return false
			}
		}
		return true
	})
	if sim.Failure() != nil {
		return
	}
	if status == verifsim.StepCap {
		r.Res.Verdict = "inconclusive"
		return
	}
	if !st.checkHandler() {
		return
	}
	used := map[int]bool{}
	for _, q := range all {
		if !q.done {
			r.Fail("C12:request-never-completes:"+st.mode+":"+st.kind, "request %d (%d bytes) did not complete on a benign network (status %v); parked %v", q.id, len(q.req), status, sim.ParkedNames())
			return
		}
		if q.err != nil && werr {
			continue
		}
		if q.err != nil {
			r.Fail("C12:request-failed:"+st.mode+":"+st.kind, "request %d (%d bytes) failed on a benign network: %v", q.id, len(q.req), q.err)
			return
		}
		found := false
		for k, s := range st.sentS2C {
			if !used[k] && bytes.Equal(s, q.resp) {
				used[k] = true
				found = true
				break
			}
		}
		if !found {
			r.Fail("C12:caller-got-"+st.explain(st.sentS2C, q.resp)+":"+st.mode+":"+st.kind, "request %d was answered with %s, which is not a response the service produced (or one already returned to another caller)", q.id, describeBytes(q.resp))
			return
		}
	}
	if werr {
		// (how often the handler ran is not checked here: the fasthttp client re-sends a request whose response
		// never started, so a complete message may legitimately arrive twice)
		// afterwards a healthy request goes through
		fx.Net.Disarm()
		fx.Heal()
		sim.Drive(func() bool { return false })
		fin := false
		req := payload(999000+sub, 64)
		st.sentC2S = append(st.sentC2S, req)
		var resp []byte
		var err error
		sim.Task("zsentinel", func() {
			resp, err = client.Request(clientCtx(client), append([]byte(nil), req...))
			fin = true
		})
		sim.Drive(func() bool { return fin })
		if sim.Failure() != nil || !st.checkHandler() {
			return
		}
		if !fin || err != nil {
			r.Fail("C12:sentinel-failed-after:werr:"+st.kind, "after a failed write a healthy request on the same client failed: %v (completed %v)", err, fin)
			return
		}
		if !st.in(st.sentS2C, resp) {
			r.Fail("C12:caller-got-"+st.explain(st.sentS2C, resp)+":werr:"+st.kind, "the sentinel got %s", describeBytes(resp))
		}
		return
	}
	if len(st.handlerSaw) != len(all) {
		r.Fail("C12:handler-count:benign:"+st.kind, "%d requests sent, the IO handler ran %d times", len(all), len(st.handlerSaw))
	}
}

// rawDial opens a raw connection of the fixture's kind from the harness.
func rawStream(fx *Fixture) net.Conn {
	c, err := fx.Net.Dial(context.Background(), fx.Addr)
	if err != nil {
		panic(err)
	}
	return c
}

// c12ServerSide: a raw peer sends inconsistent frames to the real handler; a
// real client sends sentinels before and after. The IO handler may only ever
// see complete messages that were sent.
func c12ServerSide(r *Run, sim *verifsim.Sim, st *c12state, sub int) {
	service := core.NewService()
	service.Use(st.echoHandler)
	overLimit := st.mode == "http-cut" && (sub/12)%2 == 1
	if overLimit {
		service.MaxRequestLength = 300
	}
	fx := NewFixture(r, st.kind, service)
	client := fx.NewClient()
	client.Timeout = 5 * time.Second
	kind, mode := st.kind, st.mode
	bodyLen := []int{40, 1, 13, 300, 1000}[sub%5]
	body := payload(7000+sub, bodyLen)
	var frames [][]byte // what the raw peer writes (then closes)
	desc := ""
	switch mode {
	case "hdr-srv":
		if kind == "socket" {
			bit := sub % 96
			f := sockFrame(uint32(5+sub), body)
			f[bit/8] ^= 1 << uint(bit%8)
			frames = [][]byte{f}
			desc = fmt.Sprintf("socket header bit %d flipped", bit)
		} else {
			bit := sub % 64
			f := udpFrame(uint16(5+sub), body)
			f[bit/8] ^= 1 << uint(bit%8)
			frames = [][]byte{f}
			desc = fmt.Sprintf("udp header bit %d flipped", bit)
		}
	case "len-srv":
		if kind == "socket" {
			decl := []int{bodyLen + 1, 2 * bodyLen, 0x7fffffff, bodyLen + 12}[sub%4]
			carried := body
			// half of the cases: nothing at all follows the header (close right after it, or inside it)
			switch (sub / 4) % 4 {
			case 1:
				carried = nil
				decl = []int{1, 11, 12, 255, 256, 4096, 65536}[(sub/16)%7]
			case 3:
				carried = body[:1]
			}
			f := append(sockHeader(decl, uint32(5+sub)), carried...)
			frames = [][]byte{f}
			desc = fmt.Sprintf("socket frame declares %d bytes, carries %d, then the peer closes", decl, len(carried))
		} else {
			decl := []int{0, bodyLen - 1, bodyLen + 1, 2 * bodyLen, 65499, 65535}[sub%6]
			if decl < 0 {
				decl = 0
			}
			f := append(udpHeader(decl, uint16(5+sub)), body...)
			frames = [][]byte{f}
			desc = fmt.Sprintf("udp datagram declares %d bytes, carries %d", decl, bodyLen)
		}
	case "udp-stale":
		// a large valid request from the real client first (sentinel), then a
		// short datagram from another socket that declares more than it carries
		decl := []int{600, 2000, 101, 65499}[sub%4]
		small := payload(7100+sub, 100)
		f := append(udpHeader(decl, uint16(9)), small...)
		frames = [][]byte{f}
		desc = fmt.Sprintf("udp datagram declares %d bytes, carries 100, after a 3000-byte datagram of another client", decl)
	case "http-cut":
		if overLimit {
			// a chunked body (no declared length) larger than the service accepts: the service may refuse it or,
			// as far as this property goes, take all of it - but never a truncated part of it
			total := []int{301, 302, 600, 5000}[sub%4]
			full := payload(7300+sub, total)
			st.sentC2S = append(st.sentC2S, full)
			chunk := []int{total, 100, 7}[(sub/4)%3]
			var b bytes.Buffer
			fmt.Fprintf(&b, "POST / HTTP/1.1\r\nHost: %s\r\nTransfer-Encoding: chunked\r\nContent-Type: application/octet-stream\r\n\r\n", fx.Addr)
			for off := 0; off < total; off += chunk {
				end := off + chunk
				if end > total {
					end = total
				}
				fmt.Fprintf(&b, "%x\r\n", end-off)
				b.Write(full[off:end])
				b.WriteString("\r\n")
			}
			b.WriteString("0\r\n\r\n")
			frames = [][]byte{b.Bytes()}
			desc = fmt.Sprintf("HTTP POST with a chunked body of %d bytes (chunks of %d) to a service that accepts 300", total, chunk)
			break
		}
		total := []int{100, 1000, 5000}[sub%3]
		have := []int{0, 1, total / 2, total - 1}[(sub/3)%4]
		full := payload(7200+sub, total)
		req := fmt.Sprintf("POST / HTTP/1.1\r\nHost: %s\r\nContent-Length: %d\r\nContent-Type: application/octet-stream\r\n\r\n", fx.Addr, total)
		frames = [][]byte{append([]byte(req), full[:have]...)}
		desc = fmt.Sprintf("HTTP POST declares Content-Length %d, %d body bytes arrive, then the peer closes", total, have)
	}
	r.Param("case", desc)
	sentinel := func(id, n int) (req, resp []byte, err error) {
		req = payload(id, n)
		st.sentC2S = append(st.sentC2S, req)
		resp, err = client.Request(clientCtx(client), append([]byte(nil), req...))
		return
	}
	phase := 0
	var sErr [2]error
	var sResp [2][]byte
	sim.Task("sentinel-a", func() {
		n := 50
		if mode == "udp-stale" {
			n = 3000
		}
		_, sResp[0], sErr[0] = sentinel(8000+sub, n)
		phase = 1
	})
	if sim.Drive(func() bool { return phase == 1 }) != verifsim.Done || sErr[0] != nil {
		if sim.Failure() == nil {
			r.Fail("C12:sentinel-failed:"+mode+":"+kind, "healthy request before the fault failed: %v", sErr[0])
		}
		return
	}
	// the raw peer
	sim.Task("rawpeer", func() {
		sim.Fault("inconsistent-frame")
		if kind == "udp" {
			c, _ := fx.UDP.Dial(fx.udpSrv)
			for _, f := range frames {
				c.Write(f)
			}
		} else {
			c := rawStream(fx)
			for _, f := range frames {
				c.Write(f)
			}
			c.Close()
		}
		phase = 2
	})
	sim.Drive(func() bool { return phase == 2 })
	sim.Drive(func() bool { return false }) // until everything is delivered and handled
	if sim.Failure() != nil || !st.checkHandler() {
		return
	}
	sim.Task("sentinel-b", func() {
		_, sResp[1], sErr[1] = sentinel(8500+sub, 64)
		phase = 3
	})
	sim.Drive(func() bool { return phase == 3 })
	sim.Drive(func() bool { return false })
	if sim.Failure() != nil || !st.checkHandler() {
		return
	}
	if phase != 3 || sErr[1] != nil {
		r.Fail("C12:sentinel-failed-after:"+mode+":"+kind, "after %s, a healthy request from another connection failed: %v (phase %d)", desc, sErr[1], phase)
		return
	}
	for i := 0; i < 2; i++ {
		if !st.in(st.sentS2C, sResp[i]) {
			r.Fail("C12:caller-got-"+st.explain(st.sentS2C, sResp[i])+":"+mode+":"+kind, "sentinel %d got %s", i, describeBytes(sResp[i]))
			return
		}
	}
	if len(st.handlerSaw) != 2 && !(overLimit && len(st.handlerSaw) == 3) {
		r.Fail("C12:handler-count:"+mode+":"+kind, "2 consistent requests were sent (plus: %s); the IO handler ran %d times", desc, len(st.handlerSaw))
	}
}

// c12ClientSide: the real client talks to a raw server peer that answers with
// inconsistent frames. The caller must get an error (or a complete intended
// response), never bytes that were not sent as one consistent response.
func c12ClientSide(r *Run, sim *verifsim.Sim, st *c12state, sub int) {
	kind, mode := st.kind, st.mode
	f := &Fixture{Kind: kind, R: r}
	f.Net = NewNet(sim)
	f.UDP = NewUDPNet(sim)
	bodyLen := []int{40, 1, 13, 300, 1000}[sub%5]
	good := payload(9000+sub, bodyLen)
	var bad func(index uint32) []byte
	desc := ""
	switch {
	case mode == "hdr-cli" && kind == "socket":
		bit := sub % 96
		bad = func(index uint32) []byte {
			fr := sockFrame(index, good)
			fr[bit/8] ^= 1 << uint(bit%8)
			return fr
		}
		desc = fmt.Sprintf("socket response header bit %d flipped", bit)
	case mode == "hdr-cli":
		bit := sub % 64
		bad = func(index uint32) []byte {
			fr := udpFrame(uint16(index), good)
			fr[bit/8] ^= 1 << uint(bit%8)
			return fr
		}
		desc = fmt.Sprintf("udp response header bit %d flipped", bit)
	case kind == "socket":
		decl := []int{bodyLen + 1, 2 * bodyLen, 0x7fffffff, bodyLen + 12}[sub%4]
		carried := good
		switch (sub / 4) % 4 {
		case 1:
			carried = nil
			decl = []int{1, 11, 12, 255, 256, 4096, 65536}[(sub/16)%7]
		case 3:
			carried = good[:1]
		}
		bad = func(index uint32) []byte { return append(sockHeader(decl, index), carried...) }
		desc = fmt.Sprintf("socket response declares %d bytes, carries %d, then the peer closes", decl, len(carried))
	default:
		decl := []int{0, bodyLen - 1, bodyLen + 1, 2 * bodyLen, 65499, 65535}[sub%6]
		if decl < 0 {
			decl = 0
		}
		bad = func(index uint32) []byte { return append(udpHeader(decl, uint16(index)), good...) }
		desc = fmt.Sprintf("udp response declares %d bytes, carries %d", decl, bodyLen)
	}
	r.Param("case", desc)
	nreq := 0
	respond := func(index uint32, write func([]byte), closeConn func()) {
		nreq++
		switch nreq {
		case 1: // a healthy, larger response first (leaves bytes in reused buffers)
			resp := payload(9500+sub, 2000)
			st.sentS2C = append(st.sentS2C, resp)
			if kind == "udp" {
				write(udpFrame(uint16(index), resp))
			} else {
				write(sockFrame(index, resp))
			}
		case 2:
			sim.Fault("inconsistent-frame")
			write(bad(index))
			if kind == "socket" && mode == "len-cli" {
				closeConn()
			}
		default:
			resp := payload(9600+sub+nreq, 77)
			st.sentS2C = append(st.sentS2C, resp)
			if kind == "udp" {
				write(udpFrame(uint16(index), resp))
			} else {
				write(sockFrame(index, resp))
			}
		}
	}
	var url string
	switch kind {
	case "socket":
		addr := "10.0.0.1:8412"
		url = "tcp://" + addr + "/"
		l := f.Net.Listen(addr)
		socket.VerifDial = func(ctx context.Context) (net.Conn, error) { return f.Net.Dial(ctx, addr) }
		sim.Task("peer-accept", func() {
			k := 0
			for {
				c, err := l.Accept()
				verifsim.ForceYield(-1)
				if err != nil {
					return
				}
				k++
				sim.Task(fmt.Sprintf("peer-read%d", k), func() {
					for {
						idx, _, ok, err := readSockFrame(c)
						verifsim.ForceYield(-2)
						if err != nil || !ok {
							return
						}
						respond(idx, func(b []byte) { c.Write(b) }, func() { c.Close() })
					}
				})
			}
		})
	case "udp":
		url = "udp://10.0.0.1:8412/"
		srv := f.UDP.Listen(8412)
		udp.VerifDial = func(ctx context.Context) (net.Conn, error) {
			c, err := f.UDP.Dial(srv)
			if err != nil {
				return nil, err
			}
			return c, nil
		}
		sim.Task("peer-read", func() {
			buf := make([]byte, 65507)
			for {
				n, from, err := srv.ReadFromUDP(buf)
				verifsim.ForceYield(-2)
				if err != nil {
					return
				}
				idx, _, ok := parseUDPFrame(buf[:n])
				if !ok {
					continue
				}
				respond(uint32(idx), func(b []byte) { srv.WriteToUDP(b, from) }, func() {})
			}
		})
	}
	client := core.NewClient(url)
	client.Timeout = 5 * time.Second
	var resp [3][]byte
	var errs [3]error
	done := 0
	sim.Task("requester", func() {
		for i := 0; i < 3; i++ {
			resp[i], errs[i] = client.Request(clientCtx(client), payload(9900+i, 30))
			sim.Event("response", i, len(resp[i]), fmt.Sprint(errs[i]))
			done++
		}
	})
	status := sim.Drive(func() bool { return done == 3 })
	if sim.Failure() != nil {
		return
	}
	if status != verifsim.Done {
		if status == verifsim.StepCap {
			r.Res.Verdict = "inconclusive"
			return
		}
		r.Fail("C12:request-never-completes:"+mode+":"+kind, "status %v after %s; %d of 3 requests completed", status, desc, done)
		return
	}
	for i := 0; i < 3; i++ {
		if errs[i] == nil && !st.in(st.sentS2C, resp[i]) {
			how := st.explain(append(st.sentS2C, good), resp[i])
			if bytes.Equal(resp[i], good) {
				how = "body-of-rejected-frame"
			}
			r.Fail("C12:caller-got-"+how+":"+mode+":"+kind, "after %s, request %d returned %s without error; consistent responses sent: %d", desc, i, describeBytes(resp[i]), len(st.sentS2C))
			return
		}
	}
	if errs[0] != nil || errs[2] != nil {
		r.Fail("C12:healthy-request-failed:"+mode+":"+kind, "requests answered consistently failed: first %v, third %v (%s)", errs[0], errs[2], desc)
	}
	_ = binary.BigEndian
	_ = strings.Contains
}
