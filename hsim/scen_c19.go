package hsim

// C19 Push delivers each accepted message to its subscriber exactly once, in order.

import (
	"fmt"
	"sort"
	"strings"
	"time"

	"context"

	"github.com/hprose/hprose-golang/v3/rpc/core"
	"github.com/hprose/hprose-golang/v3/rpc/plugins/push"
	"verifsim"
)

func init() { scenarios["C19"] = scenC19 }

type c19proxy struct {
	Message     func() (map[string][]push.Message, error) `name:"<"`
	Subscribe   func(topic string) (bool, error)          `name:"+"`
	Unsubscribe func(topic string) (bool, error)          `name:"-"`
}

type c19pub struct {
	m        int
	topic    string
	targets  []string // nil = broadcast
	inv, ret uint64
	result   map[string]bool
	via      string
	at       time.Duration
	atRet    time.Duration
}

type c19poll struct {
	c        string
	inv, ret uint64
	t0, t1   time.Duration
	got      map[string][]int
	err      error
	timedOut bool
}

type c19subop struct {
	c, topic string
	sub      bool
	inv, ret uint64
	result   bool
}

type c19unsub struct {
	c, topic string
	seq      uint64
	at       time.Duration
}

func scenC19(r *Run) {
	level := []string{"poll", "poll", "prosumer"}[r.Index%3]
	if v, ok := r.Opt["level"]; ok {
		level = v
	}
	RegisterKind("mock")
	timeout := r.PlanDur(50*time.Millisecond, 300*time.Millisecond, 2*time.Second, 2*time.Minute)
	heartbeat := r.PlanDur(time.Hour, time.Hour, 0, 400*time.Millisecond, 3*time.Second)
	ncons := 1 + r.Plan(3)
	nprod := 1 + r.Plan(3)
	ntopics := 1 + r.Plan(3)
	var stalls []time.Duration
	if r.PlanBool(3) {
		stalls = []time.Duration{timeout / 2, timeout}
	}
	// dense: publishes a millisecond apart and subscription changes in the middle of them, so that subscribing,
	// unsubscribing and polling meet publishes in flight
	dense := r.PlanBool(3)
	// late: a consumer that is already polling for one topic subscribes to a second one while a producer publishes
	// on that second topic without pause - a publish accepted the instant the broker knows the subscription must
	// reach the consumer although its Subscribe call has not even returned yet
	shape := r.Plan(4)
	late := shape == 0
	if late {
		dense = true
		if ntopics < 2 {
			ntopics = 2
		}
	}
	// multi: a consumer subscribed to three topics with dense traffic on all of them drops one in the middle: the
	// poll answers in flight carry several topics, and only the dropped topic's messages may go with it
	multi := shape == 1
	if multi {
		dense = true
		ntopics = 3
	}
	r.Param("multi_topic_unsubscribe", multi)
	r.Param("late_subscribe", late)
	r.Param("dense", dense)
	r.Param("level", level)
	r.Param("timeout", timeout.String())
	r.Param("heartbeat", heartbeat.String())
	r.Param("consumers", ncons)
	r.Param("producers", nprod)
	r.Param("topics", ntopics)
	// half of the runs preempt only inside the push plugin, with short quanta: its windows are a statement or two wide
	cfg := verifsim.Config{IdleCap: 3 * time.Hour, StepCap: 250000, StallChoices: stalls, StallWeight: 40}
	prefixes := []string{"rpc/plugins/push", "rpc/core", "rpc/mock"}
	if r.PlanBool(2) {
		cfg.GapChoices, cfg.PCTSteps = smallGaps, 400
		prefixes = prefixes[:1]
	}
	r.Param("yields", strings.Join(prefixes, ","))
	sim := r.StartSim(cfg, prefixes...)
	service := core.NewService()
	broker := push.NewBroker(service)
	broker.Timeout = timeout
	broker.HeartBeat = heartbeat
	var unsubEvents []c19unsub
	dropped := map[string][]int{}    // "c|t" -> messages handed to OnUnsubscribe
	unsubAt := map[string][]uint64{} // "c|t" -> event numbers at which the broker removed the subscription
	broker.OnUnsubscribe = func(ctx context.Context, id string, topic string, messages []push.Message) {
		for _, m := range messages {
			dropped[id+"|"+topic] = append(dropped[id+"|"+topic], toInt(m.Data))
		}
		seq := sim.Event("unsubscribed", id, topic, len(messages))
		unsubAt[id+"|"+topic] = append(unsubAt[id+"|"+topic], seq)
		unsubEvents = append(unsubEvents, c19unsub{id, topic, seq, sim.Now()})
		// a hook takes its time: whatever is published meanwhile must be refused or end up somewhere
		verifsim.Yield(-77)
	}
	// every poll ('<') as the broker sees it, for both levels
	var bpolls []*c19poll
	service.Use(func(ctx context.Context, name string, args []interface{}, next core.NextInvokeHandler) ([]interface{}, error) {
		if name != "<" {
			return next(ctx, name, args)
		}
		p := &c19poll{c: core.GetServiceContext(ctx).RequestHeaders().GetString("id"), t0: sim.Now(), got: map[string][]int{}}
		bpolls = append(bpolls, p)
		p.inv = sim.Event("broker-poll", p.c)
		res, err := next(ctx, name, args)
		p.t1 = sim.Now()
		n := 0
		if len(res) == 1 {
			if m, ok := res[0].(map[string][]push.Message); ok {
				for t, ms := range m {
					for _, x := range ms {
						p.got[t] = append(p.got[t], toInt(x.Data))
						n++
					}
				}
			}
		}
		p.timedOut = n == 0 && p.t1-p.t0 >= timeout
		p.ret = sim.Event("broker-poll-done", p.c, fmt.Sprint(p.got))
		return res, err
	})
	fx := NewFixture(r, "mock", service)
	topics := []string{"tA", "tB", "tC"}[:ntopics]
	var cons []string
	for i := 0; i < ncons; i++ {
		cons = append(cons, fmt.Sprintf("c%d", i))
	}
	var pubs []*c19pub
	var polls []*c19poll
	var subops []*c19subop
	callbacks := map[string][]int{} // prosumer level: "c|t" -> sequence seen by the callback
	producersDone := 0
	stop := false
	finished := 0
	ntasks := 0

	newClient := func(id string) (*core.Client, *c19proxy) {
		c := fx.NewClient()
		c.Timeout = 2 * time.Hour
		c.RequestHeaders().Set("id", id)
		p := &c19proxy{}
		c.UseService(p)
		return c, p
	}
	doSub := func(p *c19proxy, c, topic string, sub bool) {
		op := &c19subop{c: c, topic: topic, sub: sub}
		subops = append(subops, op)
		op.inv = sim.Event(map[bool]string{true: "sub", false: "unsub"}[sub], c, topic)
		if sub {
			op.result, _ = p.Subscribe(topic)
		} else {
			op.result, _ = p.Unsubscribe(topic)
		}
		op.ret = sim.Event("sub-done", c, topic, op.result)
	}

	// ---- consumers
	for _, c := range cons {
		c := c
		_, ctl := newClient(c)
		mine := append([]string(nil), topics...)
		nsub := 1 + r.Plan(len(mine))
		initial := mine[:nsub]
		// control operations during traffic
		type cop struct {
			after time.Duration
			topic string
			sub   bool
		}
		var cops []cop
		for i, n := 0, r.Plan(4); i < n; i++ {
			after := r.PlanDur(0, timeout/3, timeout, 3*timeout)
			if dense {
				after = r.PlanDur(0, time.Millisecond, 2*time.Millisecond, 5*time.Millisecond)
			}
			cops = append(cops, cop{after, topics[r.Plan(ntopics)], r.PlanBool(2)})
		}
		if multi {
			initial = mine
			cops = append([]cop{{r.PlanDur(5*time.Millisecond, 6*time.Millisecond, 7*time.Millisecond, 8*time.Millisecond), topics[r.Plan(2)], false}}, cops...)
		}
		if late {
			initial = mine[:1]
			cops = append([]cop{{r.PlanDur(5*time.Millisecond, 5*time.Millisecond, 6*time.Millisecond, 7*time.Millisecond), topics[1], true}}, cops...)
		}
		pauses := r.PlanBool(4) && heartbeat > 0 && heartbeat < time.Hour
		if level == "prosumer" {
			pc := fx.NewClient()
			pc.Timeout = 2 * time.Hour
			ps := push.NewProsumer(pc, c)
			ps.RetryInterval = 10 * time.Millisecond
			ntasks++
			sim.Task("cons-"+c, func() {
				defer func() { finished++ }()
				subscribe := func(t string) {
					op := &c19subop{c: c, topic: t, sub: true}
					subops = append(subops, op)
					op.inv = sim.Event("sub", c, t)
					op.result, _ = ps.Subscribe(t, func(m push.Message) {
						callbacks[c+"|"+t] = append(callbacks[c+"|"+t], toInt(m.Data))
						sim.Event("callback", c, t, toInt(m.Data))
						verifsim.Yield(-70)
					})
					op.ret = sim.Event("sub-done", c, t, op.result)
				}
				for _, t := range initial {
					subscribe(t)
				}
				// further topics are subscribed (and dropped) while the poll loop is already running
				for _, o := range cops {
					if o.after > 0 {
						time.Sleep(o.after)
						verifsim.ForceYield(-75)
					}
					if stop {
						return
					}
					if o.sub {
						subscribe(o.topic)
						continue
					}
					op := &c19subop{c: c, topic: o.topic, sub: false}
					subops = append(subops, op)
					op.inv = sim.Event("unsub", c, o.topic)
					op.result, _ = ps.Unsubscribe(o.topic)
					op.ret = sim.Event("sub-done", c, o.topic, op.result)
				}
			})
			continue
		}
		_, pl := newClient(c)
		ntasks += 2
		subscribed := false
		sim.Task("ctl-"+c, func() {
			defer func() { finished++ }()
			for _, t := range initial {
				doSub(ctl, c, t, true)
			}
			subscribed = true
			for _, o := range cops {
				if o.after > 0 {
					time.Sleep(o.after)
					verifsim.ForceYield(-71)
				}
				if stop {
					return
				}
				doSub(ctl, c, o.topic, o.sub)
			}
		})
		sim.Task("poll-"+c, func() {
			defer func() { finished++ }()
			empties := 0
			for {
				if !subscribed {
					time.Sleep(time.Millisecond)
					verifsim.ForceYield(-72)
					continue
				}
				if pauses && !stop && r.Tape.Choose(verifsim.StreamSched, 6) == 5 {
					sim.Fault("consumer-pause")
					time.Sleep(heartbeat + heartbeat/2)
					verifsim.ForceYield(-73)
				}
				p := &c19poll{c: c, t0: sim.Now()}
				polls = append(polls, p)
				p.inv = sim.Event("poll", c)
				res, err := pl.Message()
				p.t1 = sim.Now()
				p.err = err
				p.got = map[string][]int{}
				n := 0
				for t, ms := range res {
					for _, m := range ms {
						p.got[t] = append(p.got[t], toInt(m.Data))
						n++
					}
				}
				p.timedOut = n == 0 && res != nil || (n == 0 && p.t1-p.t0 >= timeout)
				p.ret = sim.Event("poll-done", c, fmt.Sprint(p.got), fmt.Sprint(err))
				if n == 0 {
					if res == nil {
						// not subscribed to anything (any more): do not spin
						time.Sleep(20 * time.Millisecond)
						verifsim.ForceYield(-74)
					}
					if stop {
						empties++
						if empties >= 2 {
							return
						}
					}
				} else {
					empties = 0
				}
			}
		})
	}

	// ---- producers
	nextMsg := 0
	for pi := 0; pi < nprod; pi++ {
		pi := pi
		via := r.PlanOf("broker", "client")
		npub := 1 + r.Plan(8)
		if dense {
			npub = 6 + r.Plan(12)
		}
		type pp struct {
			gap     time.Duration
			topic   string
			targets []string
			m       int
		}
		var plan []pp
		for i := 0; i < npub; i++ {
			nextMsg++
			p := pp{gap: r.PlanDur(0, 0, time.Millisecond, timeout/2, timeout, timeout+time.Millisecond, 2*timeout), topic: topics[r.Plan(ntopics)], m: nextMsg}
			if dense {
				p.gap = r.PlanDur(0, time.Millisecond, time.Millisecond, 2*time.Millisecond)
			}
			if late {
				p.gap, p.topic = r.PlanDur(0, 0, 0, time.Millisecond), topics[1]
			}
			if multi {
				p.gap = r.PlanDur(0, 0, 0, time.Millisecond)
			}
			switch r.Plan(3) {
			case 0: // unicast
				p.targets = []string{cons[r.Plan(ncons)]}
			case 1: // multicast
				for _, c := range cons {
					if r.PlanBool(2) {
						p.targets = append(p.targets, c)
					}
				}
				if len(p.targets) == 0 {
					p.targets = []string{cons[0]}
				}
				if len(p.targets) == 1 {
					p.targets = append(p.targets, "nobody")
				}
			}
			plan = append(plan, p)
		}
		var pros *push.Prosumer
		if via == "client" {
			pc := fx.NewClient()
			pc.Timeout = 2 * time.Hour
			pros = push.NewProsumer(pc, fmt.Sprintf("producer%d", pi))
		}
		ntasks++
		sim.Task(fmt.Sprintf("prod%d", pi), func() {
			defer func() { finished++; producersDone++ }()
			// let the consumers subscribe first (publishes to unsubscribed clients are refused)
			time.Sleep(5 * time.Millisecond)
			verifsim.ForceYield(-75)
			for _, p := range plan {
				if p.gap > 0 {
					time.Sleep(p.gap)
					verifsim.ForceYield(-76)
				}
				pb := &c19pub{m: p.m, topic: p.topic, targets: p.targets, via: via, at: sim.Now()}
				pubs = append(pubs, pb)
				pb.inv = sim.Event("pub", p.m, p.topic, fmt.Sprint(p.targets), via)
				if pros != nil {
					pb.result, _ = pros.Push(p.m, p.topic, p.targets...)
				} else {
					pb.result = broker.Push(p.m, p.topic, p.targets...)
				}
				pb.atRet = sim.Now()
				pb.ret = sim.Event("pub-done", p.m, fmt.Sprint(pb.result))
			}
		})
	}
	// when every producer is done, tell the consumers to drain and stop
	st := sim.Drive(func() bool {
		if producersDone == nprod && !stop {
			stop = true
			sim.NoStalls()
		}
		if level == "prosumer" {
			return producersDone == nprod && finished == ntasks
		}
		return finished == ntasks
	})
	if sim.Failure() != nil {
		return
	}
	if st != verifsim.Done {
		if st == verifsim.StepCap {
			r.Res.Verdict = "inconclusive"
			return
		}
		r.Fail("C19:stuck:"+level, "status %v (finished %d of %d tasks); parked %v", st, finished, ntasks, sim.ParkedNames())
		return
	}
	if level == "prosumer" {
		// let the prosumers' poll loops deliver what is cached: one more poll cycle after the last publish
		tEnd := sim.Now() + 3*timeout + time.Second
		sim.Drive(func() bool { return sim.Now() > tEnd })
		if sim.Failure() != nil {
			return
		}
	}

	// ---- a subscriber that keeps polling is not dropped: a subscription the broker removed on its own (no
	// unsubscribe call of that client in progress) can only be a heartbeat expiry, and the heartbeat only runs
	// between a poll's answer and the next poll - never while a poll of that client is waiting at the broker
	// (only in runs without stalls: a task stalled for longer than the heartbeat between the broker's answer and the
	// client's next poll is a client that was silent for that long)
	for _, u := range unsubEvents {
		if sim.StallTotal() > 0 {
			break
		}
		own := false
		for _, op := range subops {
			if !op.sub && op.c == u.c && op.topic == u.topic && op.inv < u.seq && (op.ret == 0 || op.ret > u.seq) {
				own = true
			}
		}
		if own {
			continue
		}
		for _, p := range bpolls {
			if p.c == u.c && p.inv < u.seq && (p.ret == 0 || p.ret > u.seq) && u.at-p.t0 > 0 {
				r.Fail("C19:subscriber-dropped-while-polling:"+level, "the broker removed client %s's subscription to %s at t=%v (event %d) although no unsubscribe call of that client was in progress and its poll (event %d, since t=%v) was waiting at the broker: heartbeat %v, poll time-out %v", u.c, u.topic, u.at, u.seq, p.inv, p.t0, heartbeat, timeout)
				return
			}
		}
	}

	// ---- the history checker (DESIGN.md appendix A.6)
	for _, c := range cons {
		for _, t := range topics {
			key := c + "|" + t
			var D []int
			var dSeq []uint64
			if level == "prosumer" {
				D = callbacks[key]
			} else {
				for _, p := range polls {
					if p.c == c {
						for _, m := range p.got[t] {
							D = append(D, m)
							dSeq = append(dSeq, p.ret)
						}
					}
				}
			}
			accepted := map[int]*c19pub{}
			for _, pb := range pubs {
				if pb.topic == t && pb.result[c] {
					accepted[pb.m] = pb
				}
			}
			seen := map[int]int{}
			for _, m := range D {
				seen[m]++
				if seen[m] == 2 {
					r.Fail("C19:delivered-twice:"+level, "message %d on topic %s reached client %s twice: %v", m, t, c, D)
					return
				}
				if accepted[m] == nil {
					why := "was never published to it"
					for _, pb := range pubs {
						if pb.m == m {
							why = fmt.Sprintf("was published on topic %s to %v with result %v", pb.topic, pb.targets, pb.result)
						}
					}
					r.Fail("C19:foreign-delivery:"+level, "client %s received message %d on topic %s, which %s", c, m, t, why)
					return
				}
			}
			drop := map[int]bool{}
			for _, m := range dropped[key] {
				if seen[m] > 0 {
					r.Fail("C19:delivered-and-dropped:"+level, "message %d (client %s topic %s) was both delivered and handed to OnUnsubscribe as undelivered", m, c, t)
					return
				}
				drop[m] = true
			}
			var ms []int
			for m := range accepted {
				ms = append(ms, m)
			}
			sort.Ints(ms)
			for _, m := range ms {
				if seen[m] == 0 && !drop[m] {
					pb := accepted[m]
					// exempt: the subscription was removed (unsubscribe, or heartbeat expiry
					// because the client did not poll in time) after the publish had started
					// and before a poll of c that began after the publish returned had
					// completed - the client never had a chance to receive it
					chance := uint64(1 << 62)
					for _, p := range bpolls {
						if p.c == c && p.inv > pb.ret && p.ret != 0 && p.ret < chance {
							chance = p.ret
						}
					}
					exempt := false
					for _, u := range unsubAt[key] {
						if u > pb.inv && u < chance {
							exempt = true
						}
					}
					if !exempt && level == "prosumer" && r.Opt["noexempt"] == "" {
						// at this level "delivered" means the callback ran: a message the prosumer received in a poll is
						// dropped, legitimately, when the consumer itself unsubscribes from the topic before the
						// dispatch gets to it (an Unsubscribe call that had not returned when the publish began counts:
						// the prosumer forgets the callback first and tells the broker afterwards)
						for _, op := range subops {
							if !op.sub && op.c == c && op.topic == t && (op.ret == 0 || op.ret > pb.inv) {
								exempt = true
								sim.Probes["received-message-dropped-by-the-consumers-own-unsubscribe"]++
							}
						}
					}
					if exempt {
						sim.Probes["accepted-message-exempt-by-unsubscribe"]++
						continue
					}
					where := ""
					// was the message handed to a poll that had timed out (or was timing out)?
					// i.e. some poll of c ended empty by time-out, began before the publish
					// returned, and c's next poll began only after the publish had started
					for _, p := range bpolls {
						if p.c != c || !p.timedOut || p.inv > pb.ret {
							continue
						}
						nextInv := uint64(1 << 62)
						for _, q := range bpolls {
							if q.c == c && q.inv > p.inv && q.inv < nextInv {
								nextInv = q.inv
							}
						}
						if nextInv > pb.inv && (p.ret == 0 || p.ret > pb.inv || nextInv > pb.inv) && p.t1 <= sim.Now() && p.t0+timeout <= pubTime(pubs, pb, sim) {
							where = ":published-between-poll-timeout-and-next-poll"
						}
					}
					r.Fail("C19:message-lost"+where+":"+level, "message %d was accepted for client %s on topic %s (publish returned true at event %d) but was never delivered, nor reported by OnUnsubscribe; delivered on that topic: %v", m, c, t, pb.ret, D)
					return
				}
			}
			// order: publish real-time order must be respected
			for i := 0; i < len(D); i++ {
				for j := i + 1; j < len(D); j++ {
					a, b := accepted[D[i]], accepted[D[j]]
					if b.ret < a.inv {
						how := ""
						bi, bj := batchOf(bpolls, c, t, D[i]), batchOf(bpolls, c, t, D[j])
						if level == "prosumer" && bi != bj && bi >= 0 && bj >= 0 {
							how = ":across-batches"
						}
						r.Fail("C19:out-of-order"+how+":"+level, "client %s topic %s: message %d was delivered before message %d although the publish of %d had returned (event %d) before the publish of %d started (event %d); sequence %v", c, t, D[i], D[j], D[j], b.ret, D[i], a.inv, D)
						return
					}
				}
			}
		}
	}
	_ = strings.Join
}

func toInt(v interface{}) int {
	switch x := v.(type) {
	case int:
		return x
	case int64:
		return int(x)
	case int32:
		return int(x)
	case float64:
		return int(x)
	}
	var n int
	fmt.Sscan(fmt.Sprint(v), &n)
	return n
}

// pubTime returns the fake time at which the publish pb completed (a stall may
// separate its start from the moment it looks for a waiting poll).
func pubTime(pubs []*c19pub, pb *c19pub, sim *verifsim.Sim) time.Duration {
	return pb.atRet
}

// batchOf returns the index of the broker-side poll that returned message m to c on topic t.
func batchOf(bpolls []*c19poll, c, t string, m int) int {
	for i, p := range bpolls {
		if p.c != c {
			continue
		}
		for _, x := range p.got[t] {
			if x == m {
				return i
			}
		}
	}
	return -1
}
