package hsim

// C16 Cluster retries never duplicate non-idempotent calls and respect the budget.

import (
	"context"
	"errors"
	"fmt"
	"strings"
	"time"

	"github.com/hprose/hprose-golang/v3/rpc/core"
	"github.com/hprose/hprose-golang/v3/rpc/plugins/cluster"
	"verifsim"
)

func init() { scenarios["C16"] = scenC16 }

type c16attempt struct {
	n          int
	url        string
	begin, end time.Duration
	endSeq     uint64
	outcome    byte
}

type c16call struct {
	id       int
	script   string // outcomes of successive attempts: S, E, P; exhausted = S
	byServer map[string]byte
	attempts []*c16attempt
	res      []interface{}
	err      error
	done     bool
	gated    bool
}

type c16key struct{}

func scenC16(r *Run) {
	modes := []string{"failover", "failtry", "failfast", "forking", "broadcast", "failover", "concurrent-failover", "failtry", "concurrent-failover", "socket-cluster"}
	mode := modes[r.Index%len(modes)]
	sub := r.Index / len(modes)
	// failover and failtry occur twice in the rotation: their two slots count through consecutive sub-indices, so
	// that 10*1296 consecutive runs enumerate the whole configuration x sequence-block matrix of each
	switch r.Index % len(modes) {
	case 0, 1, 6:
		sub = sub * 2
	case 5, 7, 8:
		sub = sub*2 + 1
	}
	if v, ok := r.Opt["mode"]; ok {
		mode = v
		sub = r.Index
	}
	r.Param("mode", mode)
	if mode == "socket-cluster" {
		scenC16Socket(r, sub)
		return
	}
	RegisterKind("mock")
	stalls := []time.Duration(nil)
	// preemption points only inside the cluster plugin: that is where calls share state (the failover index), and
	// concentrating the yields there makes the scheduler's preemptions land in its few narrow windows
	sim := r.StartSim(verifsim.Config{IdleCap: time.Hour, StepCap: 200000, StallChoices: stalls,
		GapChoices: smallGaps, PCTSteps: 250}, "rpc/plugins/cluster")
	switch mode {
	case "forking", "broadcast":
		c16Fan(r, sim, mode, sub)
	default:
		c16Retry(r, sim, mode, sub)
	}
}

// scriptedNext is the innermost IO handler: it stands for the transport and the
// servers behind it.
func c16next(sim *verifsim.Sim, gates *[]*c16gate) core.IOHandler {
	return func(ctx context.Context, request []byte, next core.NextIOHandler) ([]byte, error) {
		c := ctx.Value(c16key{}).(*c16call)
		cc := core.GetClientContext(ctx)
		a := &c16attempt{n: len(c.attempts) + 1, url: cc.URL.String(), begin: sim.Now()}
		c.attempts = append(c.attempts, a)
		out := byte('S')
		if c.byServer != nil {
			out = c.byServer[a.url]
		} else if a.n <= len(c.script) {
			out = c.script[a.n-1]
		}
		a.outcome = out
		sim.Event("attempt", c.id, a.n, a.url, string(out))
		if c.gated {
			g := &c16gate{label: fmt.Sprintf("finish call %d attempt %d on %s", c.id, a.n, a.url), ch: make(chan struct{})}
			*gates = append(*gates, g)
			<-g.ch
			verifsim.ForceYield(-30)
		} else {
			verifsim.Yield(-31)
		}
		a.end = sim.Now()
		a.endSeq = sim.Event("attempt-end", c.id, a.n, string(out))
		switch out {
		case 'E':
			return nil, fmt.Errorf("E%d@%s", a.n, a.url)
		case 'P':
			panic(fmt.Sprintf("P%d@%s", a.n, a.url))
		}
		return intReply(1000*c.id + a.n), nil
	}
}

type c16gate struct {
	label string
	ch    chan struct{}
	open  bool
}

func c16urls(n int) []string {
	var u []string
	for i := 0; i < n; i++ {
		u = append(u, fmt.Sprintf("mock://server%d", i))
	}
	return u
}

func c16sequences(maxLen int) []string {
	out := []string{""}
	frontier := []string{""}
	for l := 1; l <= maxLen; l++ {
		var nxt []string
		for _, p := range frontier {
			for _, c := range "SEP" {
				nxt = append(nxt, p+string(c))
			}
		}
		out = append(out, nxt...)
		frontier = nxt
	}
	return out
}

func c16Retry(r *Run, sim *verifsim.Sim, mode string, sub int) {
	// configuration enumerated by sub
	retry := sub % 4
	sub /= 4
	defIdem := sub%2 == 1
	sub /= 2
	override := []string{"none", "true", "false"}[sub%3]
	sub /= 3
	nsrv := 1 + sub%4
	sub /= 4
	retryOverride := -1
	if sub%3 == 2 {
		retryOverride = (retry + 1) % 4
	}
	sub /= 3
	block := sub
	if mode == "concurrent-failover" {
		// this mode is about calls racing on the shared failover index: three quarters of its runs use
		// configurations in which calls actually fail over (idempotent, retry >= 2, at least two servers)
		if block%4 != 0 {
			retry = 2 + retry%2
			defIdem = true
			if override == "false" {
				override = "true"
			}
			if nsrv < 2 {
				nsrv = 2 + block%3
			}
			retryOverride = -1
		}
	}
	r.Param("retry", retry)
	r.Param("idempotent_default", defIdem)
	r.Param("idempotent_override", override)
	r.Param("servers", nsrv)
	r.Param("retry_override", retryOverride)
	urls := c16urls(nsrv)
	client := core.NewClient(urls...)
	client.Timeout = time.Hour
	opts := []cluster.Option{cluster.WithRetry(retry), cluster.WithIdempotent(defIdem),
		cluster.WithMinInterval(r.PlanDur(time.Millisecond, 100*time.Millisecond, time.Second)), cluster.WithMaxInterval(r.PlanDur(time.Second, 10*time.Second))}
	var cfg cluster.Config
	base := mode
	if mode == "concurrent-failover" {
		base = "failover"
	}
	switch base {
	case "failover":
		cfg = cluster.FailoverConfig(opts...)
	case "failtry":
		cfg = cluster.FailtryConfig(opts...)
	case "failfast":
		cfg = cluster.FailfastConfig(func(context.Context) {})
		retry = 0
	}
	var gates []*c16gate
	client.Use(cluster.New(cfg).Handler, c16next(sim, &gates))
	effRetry := retry
	if retryOverride >= 0 && base != "failfast" {
		effRetry = retryOverride
	}
	idem := defIdem
	switch override {
	case "true":
		idem = true
	case "false":
		idem = false
	}
	if base == "failfast" {
		// failfast has no retry hook: one attempt whatever the flags say
		effRetry = 0
	}
	maxAttempts := 1
	if idem {
		maxAttempts = effRetry + 1
	}
	seqs := c16sequences(effRetry + 2)
	// this run covers a block of the sequences
	per := 45
	nblocks := (len(seqs) + per - 1) / per
	lo := (block % nblocks) * per
	hi := lo + per
	if hi > len(seqs) {
		hi = len(seqs)
	}
	mine := seqs[lo:hi]
	r.Param("sequences", fmt.Sprintf("%d..%d of %d", lo, hi, len(seqs)))

	mkctx := func(c *c16call) context.Context {
		cc := core.NewClientContext()
		if override != "none" {
			cc.Items().Set("idempotent", override == "true")
		}
		if retryOverride >= 0 {
			cc.Items().Set("retry", retryOverride)
		}
		return context.WithValue(core.WithContext(context.Background(), cc), c16key{}, c)
	}
	check := func(c *c16call, concurrent bool) bool {
		n := len(c.attempts)
		cls := func(w string) string { return "C16:" + w + ":" + mode }
		desc := fmt.Sprintf("call %d script %q retry=%d idempotent=%v (default %v, override %s) servers=%d: attempts %s -> result %v err %v",
			c.id, c.script, effRetry, idem, defIdem, override, nsrv, c16render(c.attempts), c.res, c.err)
		if n < 1 {
			r.Fail(cls("no-attempt"), "%s", desc)
			return false
		}
		if !idem && n > 1 {
			r.Fail(cls("non-idempotent-call-retried"), "%s", desc)
			return false
		}
		if n > maxAttempts {
			r.Fail(cls("retry-budget-exceeded"), "%s: at most %d attempts allowed", desc, maxAttempts)
			return false
		}
		for i, a := range c.attempts {
			if a.outcome == 'S' && i != n-1 {
				r.Fail(cls("attempt-after-success"), "%s", desc)
				return false
			}
			if !contains(urls, a.url) {
				r.Fail(cls("unconfigured-target"), "%s", desc)
				return false
			}
			if i > 0 && a.begin < c.attempts[i-1].end {
				r.Fail(cls("overlapping-attempts"), "%s", desc)
				return false
			}
			if i > 0 && base == "failover" && nsrv >= 2 && a.url == c.attempts[i-1].url {
				how := "sequential"
				if concurrent {
					how = "concurrent"
				}
				r.Fail(cls("failover-retried-same-server:"+how), "%s: attempt %d went to the server that had just failed", desc, a.n)
				return false
			}
			if i > 0 && base != "failover" && a.url != c.attempts[0].url {
				r.Fail(cls("target-changed"), "%s", desc)
				return false
			}
		}
		last := c.attempts[n-1]
		if last.outcome == 'S' {
			if c.err != nil || len(c.res) != 1 || fmt.Sprint(c.res[0]) != fmt.Sprint(1000*c.id+last.n) {
				r.Fail(cls("wrong-result"), "%s: expected the last attempt's response %d", desc, 1000*c.id+last.n)
				return false
			}
		} else {
			want := fmt.Sprintf("%c%d@%s", last.outcome, last.n, last.url)
			if c.err == nil || !strings.Contains(c.err.Error(), want) {
				r.Fail(cls("wrong-error"), "%s: expected the last attempt's error %q", desc, want)
				return false
			}
		}
		// the statement says "at most"; stopping early without success is still wrong
		if last.outcome != 'S' && n < maxAttempts && false {
			return false
		}
		return true
	}
	if mode == "concurrent-failover" {
		ncalls := 2 + r.Plan(4)
		if block%4 == 3 {
			ncalls = 5 + r.Plan(4) // many calls hammering the shared index at the same instants
		}
		var calls []*c16call
		fin := 0
		// prefer scripts that begin with a failure
		var failing []string
		for _, sq := range mine {
			if len(sq) > 0 && sq[0] != 'S' {
				failing = append(failing, sq)
			}
		}
		if len(failing) == 0 || r.Plan(4) == 0 {
			failing = mine
		}
		for i := 0; i < ncalls; i++ {
			c := &c16call{id: i + 1, script: failing[r.Plan(len(failing))]}
			calls = append(calls, c)
			sim.Task(fmt.Sprintf("call%d", i), func() {
				c.res, c.err = client.InvokeContext(mkctx(c), "f", []interface{}{c.id})
				c.done = true
				fin++
			})
		}
		st := sim.Drive(func() bool { return fin == ncalls })
		if sim.Failure() != nil {
			return
		}
		if st != verifsim.Done {
			r.Fail("C16:stuck:"+mode, "status %v; parked %v", st, sim.ParkedNames())
			return
		}
		for _, c := range calls {
			if !check(c, true) {
				return
			}
		}
		return
	}
	finished := false
	sim.Task("calls", func() {
		defer func() { finished = true }()
		for i, s := range mine {
			c := &c16call{id: i + 1, script: s}
			c.res, c.err = client.InvokeContext(mkctx(c), "f", []interface{}{c.id})
			c.done = true
			r.Res.Cases++
			if !check(c, false) {
				return
			}
		}
	})
	st := sim.Drive(func() bool { return finished })
	if st != verifsim.Done && sim.Failure() == nil {
		r.Fail("C16:stuck:"+mode, "status %v; parked %v", st, sim.ParkedNames())
	}
}

func c16render(as []*c16attempt) string {
	var p []string
	for _, a := range as {
		p = append(p, fmt.Sprintf("%d:%c@%s", a.n, a.outcome, strings.TrimPrefix(a.url, "mock://")))
	}
	return "[" + strings.Join(p, " ") + "]"
}

// c16Fan: forking and broadcast; per-server outcomes enumerated, completion
// order decided by the tape through gates.
func c16Fan(r *Run, sim *verifsim.Sim, mode string, sub int) {
	nsrv := 1 + sub%4
	sub /= 4
	// outcome vector over {S,E,P}^nsrv
	total := 1
	for i := 0; i < nsrv; i++ {
		total *= 3
	}
	vec := sub % total
	urls := c16urls(nsrv)
	by := map[string]byte{}
	var desc []string
	for i := 0; i < nsrv; i++ {
		by[urls[i]] = "SEP"[vec%3]
		desc = append(desc, string("SEP"[vec%3]))
		vec /= 3
	}
	r.Param("servers", nsrv)
	r.Param("outcomes", strings.Join(desc, ""))
	client := core.NewClient(urls...)
	client.Timeout = time.Hour
	var gates []*c16gate
	// stacked: a retrying cluster plugin behind the fan-out, and a call that says it is not idempotent: the item
	// travels with the call into every branch, so each server is still asked exactly once
	stacked := (sub/total)%2 == 1
	r.Param("stacked_with_failtry", stacked)
	var fan core.PluginHandler = core.InvokeHandler(cluster.Broadcast)
	if mode == "forking" {
		fan = core.IOHandler(cluster.Forking)
	}
	if stacked {
		retry := cluster.New(cluster.FailtryConfig(cluster.WithRetry(2), cluster.WithIdempotent(true), cluster.WithMinInterval(time.Millisecond), cluster.WithMaxInterval(2*time.Millisecond)))
		client.Use(fan, retry.Handler, c16next(sim, &gates))
	} else {
		client.Use(fan, c16next(sim, &gates))
	}
	src := &optSource{}
	sim.AddSource(src)
	src.f = func() []verifsim.Option {
		var out []verifsim.Option
		for _, g := range gates {
			g := g
			if !g.open {
				out = append(out, verifsim.Option{Label: g.label, Do: func() { g.open = true; close(g.ch) }})
			}
		}
		return out
	}
	c := &c16call{id: 1, byServer: by, gated: true}
	ctx := context.WithValue(context.Background(), c16key{}, c)
	if stacked {
		cc := core.NewClientContext()
		cc.Items().Set("idempotent", false)
		ctx = context.WithValue(core.WithContext(context.Background(), cc), c16key{}, c)
	}
	retSeq := uint64(0)
	sim.Task("call", func() {
		c.res, c.err = client.InvokeContext(ctx, "f", []interface{}{1})
		c.done = true
		retSeq = sim.Event("return", fmt.Sprint(c.res), fmt.Sprint(c.err))
	})
	// the call must return once every branch has answered; afterwards let the
	// remaining branches finish too
	st := sim.Drive(func() bool { return c.done })
	if sim.Failure() != nil {
		return
	}
	d := fmt.Sprintf("%s over %d servers with outcomes %v: attempts %s -> result %v err %v", mode, nsrv, desc, c16render(c.attempts), c.res, c.err)
	if st != verifsim.Done {
		r.Fail("C16:"+mode+"-blocks", "%s: status %v although every branch has answered; parked %v", d, st, sim.ParkedNames())
		return
	}
	sim.Drive(func() bool { return false })
	cls := func(w string) string { return "C16:" + w + ":" + mode }
	seen := map[string]int{}
	for _, a := range c.attempts {
		seen[a.url]++
		if !contains(urls, a.url) {
			r.Fail(cls("unconfigured-target"), "%s", d)
			return
		}
	}
	for _, u := range urls {
		if seen[u] != 1 {
			r.Fail(cls("server-not-invoked-exactly-once"), "%s: %s was invoked %d times", d, u, seen[u])
			return
		}
	}
	nfail := 0
	for _, u := range urls {
		if by[u] != 'S' {
			nfail++
		}
	}
	if mode == "forking" {
		if nfail == nsrv {
			if c.err == nil {
				r.Fail(cls("all-failed-but-success"), "%s", d)
			}
			return
		}
		if c.err != nil {
			r.Fail(cls("failed-although-a-server-succeeded"), "%s", d)
			return
		}
		// the response of a successful attempt that had completed when the call returned
		// (which of two branches finishing together is "first" is decided inside the
		// plugin, after the point the harness can observe)
		okRes := false
		for _, a := range c.attempts {
			if a.outcome == 'S' && a.endSeq != 0 && a.endSeq < retSeq && len(c.res) == 1 && fmt.Sprint(c.res[0]) == fmt.Sprint(1000+a.n) {
				okRes = true
			}
		}
		if !okRes {
			r.Fail(cls("not-a-completed-success"), "%s: the result is not the response of a successful branch that had completed when the call returned", d)
		}
		return
	}
	// broadcast: results[i] belongs to server i; error iff some attempt failed
	if (nfail > 0) != (c.err != nil) {
		r.Fail(cls("error-iff-some-failed"), "%s", d)
		return
	}
	if len(c.res) != nsrv {
		r.Fail(cls("result-count"), "%s", d)
		return
	}
	for i, u := range urls {
		var a *c16attempt
		for _, x := range c.attempts {
			if x.url == u {
				a = x
			}
		}
		if by[u] == 'S' {
			got := c.res[i]
			if l, ok := got.([]interface{}); ok && len(l) == 1 {
				got = l[0]
			}
			if fmt.Sprint(got) != fmt.Sprint(1000+a.n) {
				r.Fail(cls("result-position"), "%s: results[%d] = %v, expected server %d's response %d", d, i, c.res[i], i, 1000+a.n)
				return
			}
		}
	}
	_ = errors.New
}
