module hsim

go 1.25

require (
	github.com/hprose/hprose-golang/v3 v3.0.0
	verifsim v0.0.0
)

require (
	github.com/andot/complexconv v1.0.0 // indirect
	github.com/anishathalye/porcupine v1.3.0 // indirect
	github.com/google/uuid v1.3.0 // indirect
	github.com/modern-go/reflect2 v1.0.2 // indirect
)

replace github.com/hprose/hprose-golang/v3 => /var/tmp/vscratch/t1

replace verifsim => /verif/verifsim
