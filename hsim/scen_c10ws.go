package hsim

// C10, peer-closes variant for websocket: the peer ends the connection the
// websocket way, with a Close control frame (any status code), while calls are
// pending. The real hprose server never sends one (it just drops the TCP
// connection), so the peer here is harness code: net/http + the websocket
// library's Upgrader, holding back the answers of the calls under test.

import (
	"context"
	"fmt"
	"net"
	"net/http"
	"time"

	fws "github.com/fasthttp/websocket"
	"github.com/hprose/hprose-golang/v3/rpc/core"
	"github.com/hprose/hprose-golang/v3/rpc/websocket"
	"verifsim"
)

func c10WSCloseFrame(r *Run) {
	kind := "websocket"
	r.Param("kind", kind)
	r.Param("mode", "ws-close-frame")
	RegisterKind(kind)
	timeout := r.PlanDur(0, 0, 5*time.Second, time.Minute)
	code := []int{fws.CloseNormalClosure, fws.CloseGoingAway, fws.CloseProtocolError, fws.CloseInternalServerErr, fws.CloseServiceRestart, fws.ClosePolicyViolation}[r.Plan(6)]
	thenDrop := r.PlanBool(2) // the peer also closes the TCP connection after the frame
	ncallers := 1 + r.Plan(3)
	r.Param("timeout", timeout.String())
	r.Param("callers", ncallers)
	r.Param("faults", fmt.Sprintf("close frame %d, tcp closed afterwards %v", code, thenDrop))
	sim := r.StartSim(verifsim.Config{IdleCap: 10 * time.Minute, StepCap: 60000})
	nw := NewNet(sim)
	addr := "10.0.0.1:8080"
	l := nw.Listen(addr)
	websocket.VerifNetDial = func(ctx context.Context, network, a string) (net.Conn, error) { return nw.Dial(ctx, addr) }
	up := fws.Upgrader{Subprotocols: []string{"hprose"}}
	var conns []*fws.Conn
	held := 0 // requests of calls under test that have reached the peer
	srv := &http.Server{Handler: http.HandlerFunc(func(w http.ResponseWriter, req *http.Request) {
		c, err := up.Upgrade(w, req, nil)
		if err != nil {
			return
		}
		defer c.Close()
		conns = append(conns, c)
		for {
			_, msg, err := c.ReadMessage()
			verifsim.ForceYield(-8)
			if err != nil || len(msg) < 4 {
				return
			}
			_, nonce, _ := parseIntCall(msg[4:])
			if nonce >= 100 {
				held++
				continue // a call under test: its answer never comes
			}
			c.WriteMessage(fws.BinaryMessage, append(append([]byte(nil), msg[:4]...), intReply(nonce+1)...))
		}
	})}
	sim.Task("srv", func() { srv.Serve(l) })
	client := core.NewClient("ws://" + addr + "/")
	client.Timeout = timeout
	type call struct {
		nonce int
		res   []interface{}
		err   error
		done  bool
		start time.Duration
		end   time.Duration
	}
	do := func(c *call) {
		c.start = sim.Now()
		sim.Event("invoke", c.nonce)
		c.res, c.err = client.Invoke("ok", []interface{}{c.nonce})
		c.end = sim.Now()
		c.done = true
		sim.Event("return", c.nonce, fmt.Sprint(c.res), fmt.Sprint(c.err))
	}
	// a healthy call first, so that the connection exists
	warm := &call{nonce: 1}
	sim.Task("awarm", func() { do(warm) })
	if sim.Drive(func() bool { return warm.done }) != verifsim.Done || warm.err != nil {
		if sim.Failure() == nil {
			r.Fail("C10:healthy-call-failed:"+kind, "warm-up call against the scripted websocket peer: %v", warm.err)
		}
		return
	}
	var calls []*call
	for i := 0; i < ncallers; i++ {
		c := &call{nonce: 100 + i}
		calls = append(calls, c)
		sim.Task(fmt.Sprintf("caller%02d", i), func() { do(c) })
	}
	// let them get as far as the tape decides, then the peer says goodbye
	sent := false
	acts := NewActions(sim)
	// (only once every call under test has reached the peer: a call that has not been sent yet would go out on a
	// new connection afterwards and wait there, legitimately, for the answer the peer never gives)
	acts.Add("peer sends close frame", func() bool { return held == ncallers }, func() {
		sim.Fault("ws-close-frame")
		sim.Task("peer-closer", func() {
			for _, c := range conns {
				c.WriteControl(fws.CloseMessage, fws.FormatCloseMessage(code, "bye"), time.Now().Add(time.Second))
				if thenDrop {
					c.Close()
				}
			}
			sent = true
		})
	})
	failed := false
	sim.OnQuiescent(func() {
		if !sent || failed || nw.InFlight() {
			return
		}
		for _, c := range calls {
			if c.start > 0 || c.nonce >= 100 {
				if !c.done && c.start+0 <= sim.Now() {
					failed = true
					r.Fail("C10:not-returned-after-peer-close:"+kind, "the peer closed the websocket connection with a Close frame (status %d%s) while call %d (timeout %v) was pending; at a quiescent point afterwards the call is still waiting: it can only return through its timer, or never",
						code, map[bool]string{true: ", then dropped the TCP connection", false: ""}[thenDrop], c.nonce, timeout)
					return
				}
			}
		}
	})
	st := sim.Drive(func() bool {
		for _, c := range calls {
			if !c.done {
				return false
			}
		}
		return sent
	})
	if sim.Failure() != nil {
		return
	}
	if st != verifsim.Done {
		if st == verifsim.StepCap {
			r.Res.Verdict = "inconclusive"
			return
		}
		r.Fail("C10:never-returns:"+kind, "status %v after the peer's Close frame; parked %v", st, sim.ParkedNames())
		return
	}
	for _, c := range calls {
		if c.err == nil {
			r.Fail("C10:wrong-result:"+kind, "call %d was never answered, yet returned %v without error", c.nonce, c.res)
			return
		}
	}
	// the client stays usable: a fresh call opens a new connection
	sim.Drive(func() bool { return false })
	fresh := &call{nonce: 2}
	client.Timeout = 30 * time.Second
	sim.Task("yfresh", func() { do(fresh) })
	st = sim.Drive(func() bool { return fresh.done })
	if sim.Failure() != nil {
		return
	}
	if st != verifsim.Done || fresh.err != nil || len(fresh.res) != 1 || fmt.Sprint(fresh.res[0]) != "3" {
		r.Fail("C10:unusable-after-failure:"+kind, "after the peer's Close frame (status %d) a fresh call on the same client ended with status %v result %v err %v", code, st, fresh.res, fresh.err)
	}
}
