package hsim

import (
	"encoding/json"
	"fmt"
	"math/rand"
	"os"
	"runtime/debug"
	"strconv"
	"strings"
	"syscall"
	"testing"
	"testing/synctest"

	"verifsim"
)

type replayInput struct {
	Plan  []int `json:"plan"`
	Sched []int `json:"sched"`
}

func envInt(k string, def int) int {
	if v := os.Getenv(k); v != "" {
		n, err := strconv.Atoi(v)
		if err == nil {
			return n
		}
	}
	return def
}

// TestWorker executes exactly one simulated run (one synctest bubble) of the
// scenario named by VERIF_PROP and exits. One run per OS process: replay of a
// run equals the original by construction.
func TestWorker(t *testing.T) {
	prop := os.Getenv("VERIF_PROP")
	if prop == "" {
		t.Skip("VERIF_PROP not set")
	}
	scen := scenarios[prop]
	if scen == nil {
		fmt.Fprintf(os.Stderr, "HARNESS-TROUBLE: no scenario %q\n", prop)
		os.Exit(3)
	}
	seed, _ := strconv.ParseUint(os.Getenv("VERIF_SEED"), 10, 64)
	idx := envInt("VERIF_RUN", 0)
	if batchProps[strings.SplitN(prop, "/", 2)[0]] {
		runBatch(t, prop, scen, seed, idx, envInt("VERIF_COUNT", 1))
		return
	}
	// no garbage collection during a run (unless the heap approaches 1 GiB): a collection empties sync.Pool, the
	// next Get then takes the constructor's path through instrumented code, and when collections happen depends on
	// the machine - a run's schedule must not
	debug.SetGCPercent(-1)
	debug.SetMemoryLimit(1 << 30)
	var tape *verifsim.Tape
	if f := os.Getenv("VERIF_REPLAY"); f != "" {
		b, err := os.ReadFile(f)
		if err != nil {
			fmt.Fprintf(os.Stderr, "HARNESS-TROUBLE: %v\n", err)
			os.Exit(3)
		}
		var in replayInput
		if err := json.Unmarshal(b, &in); err != nil {
			fmt.Fprintf(os.Stderr, "HARNESS-TROUBLE: %v\n", err)
			os.Exit(3)
		}
		tape = verifsim.NewReplayTape(in.Plan, in.Sched)
	} else {
		tape = verifsim.NewSearchTape(verifsim.Mix(seed, verifsim.HashString(strings.SplitN(prop, "/", 2)[0]), uint64(idx)))
	}
	res := &RunResult{Prop: prop, Run: idx, Seed: seed}
	r := &Run{T: t, Prop: prop, Index: idx, Tape: tape, Res: res, Trace: os.Getenv("VERIF_TRACE") != "",
		Sites: LoadSites(os.Getenv("VERIF_SITES")), Opt: map[string]string{}}
	for _, kv := range strings.Split(os.Getenv("VERIF_OPT"), ",") {
		if p := strings.SplitN(kv, "=", 2); len(p) == 2 {
			r.Opt[p[0]] = p[1]
		}
	}
	if r.Opt["tapeonly"] != "" {
		res.Plan = tape.RawPrefix(verifsim.StreamPlan, 3000)
		res.Sched = tape.RawPrefix(verifsim.StreamSched, 60000)
		res.Verdict = "tape"
		writeResult(res)
		os.Exit(0)
	}
	// the global math/rand source (load balancers, websocket masks) is part of the run's seed
	rand.Seed(int64(tape.Choose(verifsim.StreamPlan, 1<<30)))
	synctest.Test(t, func(t *testing.T) {
		r.T = t
		scen(r)
		r.finish()
		if r.Sim != nil {
			r.Sim.Stop()
		}
		writeResult(res)
		// one run per process: leave without unwinding the bubble (parked and
		// leaked goroutines die with the process).
		os.Exit(0)
	})
}

// runBatch executes count run indices in this process, one result line each.
// The index being executed is on disk before it starts, so that the driver can
// attribute a process death.
func runBatch(t *testing.T, prop string, scen Scenario, seed uint64, first, count int) {
	// absurd allocations become an attributable process death instead of machine pressure
	syscall.Setrlimit(syscall.RLIMIT_AS, &syscall.Rlimit{Cur: 4 << 30, Max: 4 << 30})
	debug.SetGCPercent(50)
	// runaway recursion overflows a 128 MiB stack in milliseconds instead of growing towards 1 GiB for seconds
	debug.SetMaxStack(128 << 20)
	out := os.Getenv("VERIF_OUT")
	sites := LoadSites(os.Getenv("VERIF_SITES"))
	opt := map[string]string{}
	for _, kv := range strings.Split(os.Getenv("VERIF_OPT"), ",") {
		if p := strings.SplitN(kv, "=", 2); len(p) == 2 {
			opt[p[0]] = p[1]
		}
	}
	f, err := os.OpenFile(out, os.O_APPEND|os.O_CREATE|os.O_WRONLY, 0o644)
	if err != nil {
		fmt.Fprintf(os.Stderr, "HARNESS-TROUBLE: %v\n", err)
		os.Exit(3)
	}
	for idx := first; idx < first+count; idx++ {
		var tape *verifsim.Tape
		if rf := os.Getenv("VERIF_REPLAY"); rf != "" {
			b, _ := os.ReadFile(rf)
			var in replayInput
			json.Unmarshal(b, &in)
			tape = verifsim.NewReplayTape(in.Plan, in.Sched)
		} else {
			tape = verifsim.NewSearchTape(verifsim.Mix(seed, verifsim.HashString(strings.SplitN(prop, "/", 2)[0]), uint64(idx)))
		}
		res := &RunResult{Prop: prop, Run: idx, Seed: seed}
		r := &Run{T: t, Prop: prop, Index: idx, Tape: tape, Res: res, Trace: os.Getenv("VERIF_TRACE") != "", Sites: sites, Opt: opt}
		if opt["tapeonly"] != "" {
			res.Plan = tape.RawPrefix(verifsim.StreamPlan, 3000)
			res.Sched = tape.RawPrefix(verifsim.StreamSched, 100)
			res.Verdict = "tape"
		} else {
			os.WriteFile(out+".current", []byte(strconv.Itoa(idx)), 0o644)
			scen(r)
			r.finish()
		}
		b, _ := json.Marshal(res)
		f.Write(append(b, '\n'))
	}
	f.Close()
	os.Exit(0)
}
