package hsim

// Several real services behind the real socket transport, each on its own
// simulated listener, addressed by tcp:// and unix:// URLs - and a client with
// a cluster plugin in front of them. Two scenarios use it:
//
//   C16 "socket-cluster": broadcast reaches every server exactly once, forking
//   and failover reach servers that are configured and, after a failure,
//   another one - with real connections, where "another server" also means
//   another connection (unix URLs have no host part).
//
//   C10 "fanout-silent": with Forking or Broadcast in front, one server accepts
//   the request and then says nothing: the call still ends with its timeout,
//   and nothing stays pending afterwards.

import (
	"context"
	"fmt"
	"net"
	"sort"
	"strings"
	"time"

	"github.com/hprose/hprose-golang/v3/rpc/core"
	"github.com/hprose/hprose-golang/v3/rpc/plugins/cluster"
	"github.com/hprose/hprose-golang/v3/rpc/socket"
	"verifsim"
)

type multiEnv struct {
	net    *Net
	urls   []string
	addrs  map[string]string // URL key (host or unix path) -> simulated listener address
	counts []int             // executions per server
	client *core.Client
	trans  *socket.Transport
}

// newMultiEnv starts n services; unixMix chooses which URLs are unix:// ones.
func newMultiEnv(r *Run, sim *verifsim.Sim, n int, unixMix int) *multiEnv {
	RegisterKind("socket")
	e := &multiEnv{net: NewNet(sim), addrs: map[string]string{}, counts: make([]int, n)}
	ctx := context.Background()
	for i := 0; i < n; i++ {
		i := i
		addr := fmt.Sprintf("10.0.0.%d:8412", 10+i)
		var u, key string
		if unixMix&(1<<uint(i)) != 0 {
			key = fmt.Sprintf("/var/run/hprose/s%d.sock", i)
			u = "unix://" + key
		} else {
			key = addr
			u = "tcp://" + addr + "/"
		}
		e.urls = append(e.urls, u)
		e.addrs[key] = addr
		svc := core.NewService()
		svc.AddFunction(func(x int) string {
			e.counts[i]++
			return fmt.Sprintf("s%d:%d", i, x)
		}, "who")
		l := e.net.Listen(addr)
		h := svc.GetHandler("socket")
		sim.Task(fmt.Sprintf("srv%d", i), func() { h.BindContext(ctx, l) })
	}
	socket.VerifDial = func(ctx context.Context) (net.Conn, error) {
		u := core.GetClientContext(ctx).URL
		key := u.Host
		if strings.HasPrefix(u.Scheme, "unix") {
			key = u.Path
		}
		addr, ok := e.addrs[key]
		if !ok {
			return nil, fmt.Errorf("sim: no listener for %s", u)
		}
		return e.net.Dial(ctx, addr)
	}
	e.client = core.NewClient(e.urls...)
	e.trans = e.client.GetTransport("socket").(*socket.Transport)
	return e
}

func scenC16Socket(r *Run, sub int) {
	n := 2 + sub%3
	unixMix := (sub / 3) % (1 << uint(n)) // every mix of tcp and unix URLs
	plug := []string{"broadcast", "forking", "failover", "close-before-answer"}[(sub/24)%4]
	r.Param("servers", n)
	r.Param("unix_mask", unixMix)
	r.Param("plugin", plug)
	sim := r.StartSim(verifsim.Config{IdleCap: time.Hour, StepCap: 200000})
	e := newMultiEnv(r, sim, n, unixMix)
	e.client.Timeout = 5 * time.Second
	switch plug {
	case "broadcast":
		e.client.Use(cluster.Broadcast)
	case "forking":
		e.client.Use(cluster.Forking)
	case "close-before-answer":
		// no cluster plugin, or one that must not retry: the server executes the call and its connection closes,
		// gracefully, before the answer goes out. Whether the call was executed the caller cannot know - so it
		// may not be sent again
		if sub%2 == 0 {
			e.client.Use(cluster.New(cluster.FailtryConfig(cluster.WithRetry(3), cluster.WithIdempotent(false), cluster.WithMinInterval(time.Millisecond))).Handler)
		}
		e.client.URLs = e.client.URLs[:1]
		e.net.AddFault(0, "s2c", 0, "close")
	case "failover":
		e.client.Use(cluster.New(cluster.FailoverConfig(cluster.WithRetry(n), cluster.WithIdempotent(true), cluster.WithMinInterval(time.Millisecond), cluster.WithMaxInterval(10*time.Millisecond))).Handler)
		// the first server accepts and then never answers (its connection stays open): every attempt there ends
		// with the timeout, and the retry must go to another server
		e.net.SilenceListener("10.0.0.10:8412")
	}
	var res []interface{}
	var err error
	done := false
	ncalls := 1 + r.Plan(3)
	sim.Task("caller", func() {
		defer func() { done = true }()
		for k := 0; k < ncalls; k++ {
			res, err = e.client.Invoke("who", []interface{}{k})
			sim.Event("return", k, fmt.Sprint(res), fmt.Sprint(err))
			want := make([]int, n)
			switch plug {
			case "broadcast":
				for i := range want {
					want[i] = k + 1
				}
				if err != nil {
					r.Fail("C16:broadcast-failed:socket", "%d servers %v, call %d: %v", n, e.urls, k, err)
					return
				}
				if fmt.Sprint(e.counts) != fmt.Sprint(want) {
					r.Fail("C16:broadcast-not-every-server-once:socket", "%d servers %v: after %d broadcast calls the servers executed %v times, expected %v (result %v)", n, e.urls, k+1, e.counts, want, res)
					return
				}
				// results[i] belongs to server i
				if len(res) == 1 {
					if rs, ok := res[0].([]interface{}); ok {
						res = rs
					}
				}
				var got []string
				for _, x := range res {
					got = append(got, fmt.Sprint(x))
				}
				sort.Strings(got)
				for i := 0; i < n; i++ {
					if !strings.Contains(strings.Join(got, " "), fmt.Sprintf("s%d:%d", i, k)) {
						r.Fail("C16:broadcast-result-missing:socket", "%d servers %v, call %d: results %v lack server %d's answer", n, e.urls, k, got, i)
						return
					}
				}
			case "forking":
				if err != nil || len(res) != 1 || !strings.HasSuffix(fmt.Sprint(res[0]), fmt.Sprintf(":%d", k)) {
					r.Fail("C16:forking-failed:socket", "%d healthy servers %v, call %d: result %v err %v", n, e.urls, k, res, err)
					return
				}
			case "close-before-answer":
				if e.counts[0] > k+1 {
					r.Fail("C16:non-idempotent-call-sent-again:socket", "the server executed call %d and closed the connection before answering (the caller got result %v err %v): the call was executed %d times in all, the transport sent it again", k, res, err, e.counts[0]-k)
					return
				}
				if k == 0 && err == nil {
					r.Fail("C16:wrong-result:socket", "the connection closed before the answer to call 0, which returned %v without error", res)
					return
				}
			case "failover":
				if err != nil || len(res) != 1 || strings.HasPrefix(fmt.Sprint(res[0]), "s0:") {
					r.Fail("C16:failover-did-not-move:socket", "%d servers %v, the first one silent: call %d ended with result %v err %v (executions per server %v)", n, e.urls, k, res, err, e.counts)
					return
				}
			}
		}
	})
	st := sim.Drive(func() bool { return done })
	if sim.Failure() == nil && st != verifsim.Done {
		r.Fail("C16:stuck:socket-"+plug, "status %v; parked %v", st, sim.ParkedNames())
	}
}

func scenC10Fanout(r *Run) {
	n := 2 + r.Plan(2)
	plug := r.PlanOf("forking", "broadcast")
	unixMix := r.Plan(1 << uint(n))
	timeout := r.PlanDur(300*time.Millisecond, 5*time.Second)
	silent := r.Plan(n)
	allSilent := r.Plan(4) == 0
	r.Param("kind", "socket")
	r.Param("mode", "fanout-silent")
	r.Param("timeout", timeout.String())
	r.Param("faults", fmt.Sprintf("%s over %d servers, server %d silent (all silent: %v)", plug, n, silent, allSilent))
	sim := r.StartSim(verifsim.Config{IdleCap: 10 * time.Minute, StepCap: 100000})
	e := newMultiEnv(r, sim, n, unixMix)
	e.client.Timeout = timeout
	if plug == "forking" {
		e.client.Use(cluster.Forking)
	} else {
		e.client.Use(cluster.Broadcast)
	}
	// connections are numbered in the order they are opened, which the schedule decides: a silent *server* is one
	// whose service function never returns
	for i := 0; i < n; i++ {
		if i == silent || allSilent {
			// every connection to that listener is a black hole from the first byte on
			e.net.SilenceListener(fmt.Sprintf("10.0.0.%d:8412", 10+i))
		}
	}
	var err error
	var res []interface{}
	done := false
	var t0, t1 time.Duration
	sim.Task("caller", func() {
		t0 = sim.Now()
		res, err = e.client.Invoke("who", []interface{}{7})
		t1 = sim.Now()
		done = true
		sim.Event("return", fmt.Sprint(res), fmt.Sprint(err))
	})
	failed := false
	sim.OnQuiescent(func() {
		if failed || done || e.net.InFlight() {
			return
		}
		if sim.Now()-t0 > timeout {
			failed = true
			r.Fail("C10:deadline-missed:socket:fanout", "%s over %d servers with a silent one: the call (timeout %v) is still pending %v after it started: the requests sent to the servers carry no deadline", plug, n, timeout, sim.Now()-t0)
		}
	})
	st := sim.Drive(func() bool { return done })
	if sim.Failure() != nil {
		return
	}
	if st != verifsim.Done {
		r.Fail("C10:never-returns:socket:fanout", "%s over %d servers with a silent one: status %v; parked %v", plug, n, st, sim.ParkedNames())
		return
	}
	_ = t1
	if plug == "broadcast" || allSilent {
		if err == nil {
			r.Fail("C10:wrong-result:socket:fanout", "a server never answered, the %s call returned %v without error", plug, res)
			return
		}
	} else if err != nil {
		r.Fail("C10:unusable-after-failure:socket:fanout", "forking over %d servers of which one is silent failed: %v", n, err)
		return
	}
	// afterwards nothing may stay pending on the client: the silent server's call was given up with the timeout
	sim.Drive(func() bool { return false })
	time0 := sim.Now()
	for sim.Now()-time0 < 2*timeout {
		sim.Sleep(timeout)
		sim.Drive(func() bool { return false })
	}
	if conns, pending := e.trans.VerifPending(); pending > 0 {
		r.Fail("C10:pending-entries-left:socket:fanout", "%v after the %s call returned, %d calls are still pending on %d connections: requests to the silent server have no deadline", 2*timeout, plug, pending, conns)
	}
}
