package hsim

// C09 Concurrent calls each get their own response.

import (
	"context"
	"errors"
	"fmt"
	"net"
	"reflect"
	"sort"
	"strings"
	"time"

	"github.com/hprose/hprose-golang/v3/rpc/core"
	"github.com/hprose/hprose-golang/v3/rpc/plugins/reverse"
	"github.com/hprose/hprose-golang/v3/rpc/socket"
	"github.com/hprose/hprose-golang/v3/rpc/udp"
	"github.com/hprose/hprose-golang/v3/rpc/websocket"
	"verifsim"
)

func init() { scenarios["C09"] = scenC09 }

func c09f(nonce int) int { return nonce*7 + 3 }

type c09call struct {
	id, nonce int
	impatient bool // gives up after 50 ms: may fail with its deadline, nothing else
	// queuedEarly: a reverse call issued before any provider listens (late provider): it sits in the queue
	queuedEarly bool
	method      string // "" or "hold": c09f(nonce); "hold2": c09f(nonce)+1000003
	done        bool
	res         []interface{}
	err         error
}

// simPool runs submitted work as simulated tasks (the worker pool is a stub;
// what it runs is real handler code).
type simPool struct {
	sim *verifsim.Sim
	n   int
}

func (p *simPool) Submit(f func()) {
	p.n++
	p.sim.Task(fmt.Sprintf("pool%03d", p.n), f)
}

// gate parks service functions until the controller releases them, which makes
// the server completion order a tape decision.
type gate struct {
	sim      *verifsim.Sim
	arrived  []int
	release  map[int]chan struct{}
	released map[int]bool
	seen     map[int]int
	frozen   bool // no release is offered while set
	// notBefore > 0: no release is offered before that much fake time has passed
	notBefore time.Duration
}

func newGate(sim *verifsim.Sim, acts *Actions) *gate {
	g := &gate{sim: sim, release: map[int]chan struct{}{}, released: map[int]bool{}, seen: map[int]int{}}
	return g
}

func (g *gate) hold(nonce int) {
	g.seen[nonce]++
	ch := make(chan struct{})
	g.release[nonce] = ch
	g.arrived = append(g.arrived, nonce)
	g.sim.Event("arrived", nonce)
	<-ch
}

// Options: one "release" option per arrived, not yet released call.
func (g *gate) Options(now time.Time) []verifsim.Option {
	var out []verifsim.Option
	if g.frozen || (g.notBefore > 0 && g.sim.Now() < g.notBefore) {
		return nil
	}
	for _, n := range g.arrived {
		n := n
		if g.released[n] {
			continue
		}
		out = append(out, verifsim.Option{Label: fmt.Sprintf("release %d", n), Do: func() {
			g.released[n] = true
			close(g.release[n])
		}})
	}
	return out
}
func (g *gate) NextDue(now time.Time) (time.Time, bool) {
	if g.notBefore > 0 && g.sim.Now() < g.notBefore && len(g.arrived) > 0 {
		return now.Add(g.notBefore - g.sim.Now()), true
	}
	return time.Time{}, false
}

func scenC09(r *Run) {
	mode := r.PlanOf("service", "service", "pool", "scripted", "scripted", "reverse")
	if v, ok := r.Opt["mode"]; ok {
		mode = v
	}
	var kinds []string
	switch mode {
	case "service", "pool":
		kinds = MuxKinds
	case "scripted":
		kinds = []string{"socket", "udp"}
	case "reverse":
		kinds = []string{"mock", "socket", "websocket"}
	}
	kind := kinds[r.Plan(len(kinds))]
	if v, ok := r.Opt["kind"]; ok {
		kind = v
	}
	ncallers := 2 + r.Plan(7)
	perCaller := 1 + r.Plan(2)
	r.Param("mode", mode)
	r.Param("kind", kind)
	r.Param("callers", ncallers)
	RegisterKind(kind)
	sim := r.StartSim(verifsim.Config{IdleCap: 3 * time.Hour, StepCap: 150000})
	switch mode {
	case "scripted":
		c09Scripted(r, sim, kind, ncallers, perCaller)
	case "reverse":
		c09Reverse(r, sim, kind, ncallers, perCaller)
	default:
		c09Service(r, sim, kind, mode == "pool", ncallers, perCaller)
	}
}

func c09Check(r *Run, kind, mode string, calls []*c09call, seen map[int]int) {
	if seen != nil {
		var nonces []int
		for n := range seen {
			nonces = append(nonces, n)
		}
		sort.Ints(nonces)
		for _, n := range nonces {
			if k := seen[n]; k != 1 {
				r.Fail("C09:executed-not-once:"+mode+":"+kind, "the function ran %d times for nonce %d", k, n)
				return
			}
		}
	}
	for _, c := range calls {
		if !c.done {
			continue
		}
		if c.err != nil && c.impatient && (errors.Is(c.err, context.DeadlineExceeded) || strings.Contains(c.err.Error(), "deadline") || strings.Contains(c.err.Error(), "timeout")) {
			continue
		}
		if c.err != nil {
			cls := "C09:call-failed:" + mode + ":" + kind
			if mode == "reverse" {
				cls += ":" + c.err.Error()
				if seen[c.nonce] == 0 {
					cls += ":never-delivered"
					if c.queuedEarly {
						// queued at the caller's service before any provider had begun to fetch: no fetch was in
						// progress that its registration could have raced with
						cls += "-though-queued-before-the-provider-came"
					}
				}
			}
			r.Fail(cls, "call %d (nonce %d) failed with %v although the network is benign and every request was answered", c.id, c.nonce, c.err)
			return
		}
		want := func(c *c09call) int {
			if c.method == "hold2" {
				return c09f(c.nonce) + 1000003
			}
			return c09f(c.nonce)
		}
		if len(c.res) != 1 || fmt.Sprint(c.res[0]) != fmt.Sprint(want(c)) {
			owner := "nobody's"
			for _, o := range calls {
				if len(c.res) == 1 && fmt.Sprint(c.res[0]) == fmt.Sprint(want(o)) {
					owner = fmt.Sprintf("call %d's", o.id)
				}
			}
			if len(c.res) == 1 && owner == "nobody's" && (fmt.Sprint(c.res[0]) == fmt.Sprint(c09f(c.nonce)) || fmt.Sprint(c.res[0]) == fmt.Sprint(c09f(c.nonce)+1000003)) {
				owner = "the other method's"
			}
			r.Fail("C09:foreign-response:"+mode+":"+kind, "call %d (%s, nonce %d) returned %v, expected %d: that is %s answer", c.id, c.method, c.nonce, c.res, want(c), owner)
			return
		}
	}
}

func c09Drive(r *Run, sim *verifsim.Sim, kind, mode string, calls []*c09call, extra func() string, seen map[int]int) bool {
	st := sim.Drive(func() bool {
		for _, c := range calls {
			if !c.done {
				return false
			}
		}
		return true
	})
	if sim.Failure() != nil {
		return false
	}
	c09Check(r, kind, mode, calls, seen)
	if sim.Failure() != nil {
		return false
	}
	if st != verifsim.Done {
		if st == verifsim.StepCap {
			r.Res.Verdict = "inconclusive"
			r.Note("step cap")
			return false
		}
		var pend []int
		for _, c := range calls {
			if !c.done {
				pend = append(pend, c.id)
			}
		}
		x := ""
		if extra != nil {
			x = extra()
		}
		r.Fail("C09:call-never-completes:"+mode+":"+kind, "status %v with calls %v pending although every request was answered; %s parked: %v", st, pend, x, sim.ParkedNames())
		return false
	}
	return true
}

func c09Service(r *Run, sim *verifsim.Sim, kind string, pool bool, ncallers, perCaller int) {
	mode := "service"
	if pool {
		mode = "pool"
	}
	service := core.NewService()
	acts := NewActions(sim)
	g := newGate(sim, acts)
	sim.AddSource(g)
	service.AddFunction(func(nonce int) int {
		g.hold(nonce)
		return c09f(nonce)
	}, "hold")
	// a second method with a different answer: requests in flight on one connection must not swap methods either
	service.AddFunction(func(nonce int) int {
		g.hold(nonce)
		return c09f(nonce) + 1000003
	}, "hold2")
	fx := NewFixture(r, kind, service)
	if pool {
		fx.SetPool(&simPool{sim: sim})
	}
	client := fx.NewClient()
	client.Timeout = time.Hour
	if kind == "udp" && r.PlanBool(2) {
		// datagrams overtake one another in both directions and responses arrive twice; requests are not
		// duplicated (a duplicated request would legitimately execute twice) and nothing is lost
		fx.UDP.Reorder = true
		fx.UDP.DupDen, fx.UDP.DupDir = 2+r.Plan(3), "s2c"
		r.Param("udp", "reorder+dup-responses")
	}
	var calls []*c09call
	id := 0
	// the request counter of the connection is preset just below the places where an index could wrap
	if presets := []int32{0, 0, 0x7fff - 3, 0xffff - 2, 0x7fffffff - 3}; true {
		if preset := presets[r.Plan(len(presets))]; preset != 0 {
			r.Param("preset", preset)
			warm := &c09call{id: 0, nonce: 999}
			sim.Task("awarm", func() {
				warm.res, warm.err = client.Invoke("hold", []interface{}{warm.nonce})
				warm.done = true
			})
			if !c09Drive(r, sim, kind, mode, []*c09call{warm}, nil, nil) {
				return
			}
			sim.Drive(func() bool { return false })
			fx.SetCounter(preset)
		}
	}
	// two waves: the first wave's calls are all held inside the service; then the connection's request counter is
	// moved ahead by a power of two, so that the second wave's indices differ from the first wave's only above bit
	// 15 (16, 24) - calls in flight must still be told apart. (Not on udp, whose index is 15 bits by design.)
	if offset := []int32{0x8000, 0x10000, 0x1000000}[r.Plan(3)]; kind != "udp" && r.Plan(3) == 0 {
		r.Param("index_offset", offset)
		warm := &c09call{id: 0, nonce: 998}
		sim.Task("awarm", func() {
			warm.res, warm.err = client.Invoke("hold", []interface{}{warm.nonce})
			warm.done = true
		})
		if !c09Drive(r, sim, kind, mode, []*c09call{warm}, nil, nil) {
			return
		}
		sim.Drive(func() bool { return false })
		fx.SetCounter(100)
		g.frozen = true
		n1 := 1 + r.Plan(4)
		n2 := 1 + r.Plan(4)
		start := func(n int, label string) {
			for i := 0; i < n; i++ {
				id++
				c := &c09call{id: id, nonce: 1000 + id*13, method: []string{"hold", "hold2"}[r.Plan(2)]}
				calls = append(calls, c)
				sim.Task(fmt.Sprintf("%s%02d", label, i), func() {
					sim.Event("invoke", c.id, c.nonce, c.method)
					c.res, c.err = client.Invoke(c.method, []interface{}{c.nonce})
					c.done = true
					sim.Event("return", c.id, fmt.Sprint(c.res), fmt.Sprint(c.err))
				})
			}
		}
		a0 := len(g.arrived)
		start(n1, "wave1-")
		sim.Drive(func() bool { return len(g.arrived) >= a0+n1 })
		if sim.Failure() != nil {
			return
		}
		fx.SetCounter(100 + offset)
		start(n2, "wave2-")
		sim.Drive(func() bool { return len(g.arrived) >= a0+n1+n2 })
		g.frozen = false
		if !c09Drive(r, sim, kind, mode, calls, nil, g.seen) {
			return
		}
		sim.Drive(func() bool { return false })
		if _, p := fx.Pending(); p > 0 {
			r.Fail("C09:pending-entries-left:"+mode+":"+kind, "%d pending entries after all calls returned", p)
		}
		return
	}
	// impatient: one caller gives up after 50 ms while the service holds every call for 100 ms: its answer arrives
	// for a call nobody waits for any more, on a connection other calls are still pending on
	impatientSvc := r.Plan(4) == 0
	if impatientSvc {
		g.notBefore = sim.Now() + 100*time.Millisecond
		r.Param("impatient", true)
	}
	for i := 0; i < ncallers; i++ {
		var mine []*c09call
		for j := 0; j < perCaller; j++ {
			id++
			c := &c09call{id: id, nonce: 1000 + id*13, method: []string{"hold", "hold2"}[r.Plan(2)]}
			mine = append(mine, c)
			calls = append(calls, c)
		}
		if impatientSvc && i == ncallers-1 {
			mine[0].impatient = true
		}
		sim.Task(fmt.Sprintf("caller%02d", i), func() {
			for _, c := range mine {
				sim.Event("invoke", c.id, c.nonce, c.method)
				if c.impatient {
					ctx, cancel := context.WithTimeout(context.Background(), 50*time.Millisecond)
					c.res, c.err = client.InvokeContext(ctx, c.method, []interface{}{c.nonce})
					cancel()
					c.done = true
					sim.Event("return", c.id, fmt.Sprint(c.res), fmt.Sprint(c.err))
					continue
				}
				c.res, c.err = client.Invoke(c.method, []interface{}{c.nonce})
				c.done = true
				sim.Event("return", c.id, fmt.Sprint(c.res), fmt.Sprint(c.err))
			}
		})
	}
	if !c09Drive(r, sim, kind, mode, calls, nil, g.seen) {
		return
	}
	sim.Drive(func() bool { return false })
	if _, p := fx.Pending(); p > 0 {
		r.Fail("C09:pending-entries-left:"+mode+":"+kind, "%d pending entries after all calls returned", p)
	}
}

// ---- scripted peer: answers in any order, twice, with stray ids, around wrap-around

type c09req struct {
	index    uint32
	nonce    int
	conn     net.Conn
	addr     *net.UDPAddr
	answered int
}

func c09Scripted(r *Run, sim *verifsim.Sim, kind string, ncallers, perCaller int) {
	mode := "scripted"
	service := core.NewService() // not served: the peer is harness code
	_ = service
	f := &Fixture{Kind: kind, R: r}
	f.Net = NewNet(sim)
	f.UDP = NewUDPNet(sim)
	var reqs []*c09req
	strays := 1 + r.Plan(4)
	dupBudget := r.Plan(4)
	presetSel := r.Plan(4)
	var send func(q *c09req, index uint32, body []byte)
	noteReuse := func(idx uint32) {
		for _, q := range reqs {
			if q.index == idx && q.answered == 0 {
				r.Fail("C09:request-index-reused:scripted:"+kind, "request index %d is used by two calls in flight at the same time (within %d calls)", idx, len(reqs)+1)
			}
		}
	}
	var url string
	var udpSrv *UDPServer
	switch kind {
	case "socket":
		addr := "10.0.0.1:8412"
		url = "tcp://" + addr + "/"
		l := f.Net.Listen(addr)
		socket.VerifDial = func(ctx context.Context) (net.Conn, error) { return f.Net.Dial(ctx, addr) }
		sim.Task("peer-accept", func() {
			k := 0
			for {
				c, err := l.Accept()
				verifsim.ForceYield(-1)
				if err != nil {
					return
				}
				k++
				sim.Task(fmt.Sprintf("peer-read%d", k), func() {
					for {
						idx, body, ok, err := readSockFrame(c)
						verifsim.ForceYield(-2)
						if err != nil || !ok {
							return
						}
						_, nonce, ok := parseIntCall(body)
						if !ok {
							r.Note("peer: unparsed request %q", body)
							continue
						}
						noteReuse(uint32(idx))
						reqs = append(reqs, &c09req{index: idx, nonce: nonce, conn: c})
						sim.Event("peer-got", idx, nonce)
					}
				})
			}
		})
		send = func(q *c09req, index uint32, body []byte) { q.conn.Write(sockFrame(index, body)) }
	case "udp":
		url = "udp://10.0.0.1:8412/"
		udpSrv = f.UDP.Listen(8412)
		udp.VerifDial = func(ctx context.Context) (net.Conn, error) {
			c, err := f.UDP.Dial(udpSrv)
			if err != nil {
				return nil, err
			}
			return c, nil
		}
		sim.Task("peer-read", func() {
			buf := make([]byte, 65507)
			for {
				n, from, err := udpSrv.ReadFromUDP(buf)
				verifsim.ForceYield(-2)
				if err != nil {
					return
				}
				idx, body, ok := parseUDPFrame(buf[:n])
				if !ok {
					continue
				}
				_, nonce, ok := parseIntCall(body)
				if !ok {
					r.Note("peer: unparsed request %q", body)
					continue
				}
				noteReuse(uint32(idx))
				reqs = append(reqs, &c09req{index: uint32(idx), nonce: nonce, addr: from})
				sim.Event("peer-got", idx, nonce)
			}
		})
		send = func(q *c09req, index uint32, body []byte) { udpSrv.WriteToUDP(udpFrame(uint16(index), body), q.addr) }
	}
	client := core.NewClient(url)
	client.Timeout = time.Hour
	mask := uint32(0x7fffffff)
	var setCounter func(int32)
	var pending func() (int, int)
	switch kind {
	case "socket":
		t := client.GetTransport("socket").(*socket.Transport)
		setCounter, pending = t.VerifSetCounter, t.VerifPending
	case "udp":
		t := client.GetTransport("udp").(*udp.Transport)
		setCounter, pending = t.VerifSetCounter, t.VerifPending
		mask = 0x7fff
	}
	presets := []int32{0, 0x7fffffff - 3, -5, 0x7fff - 2}
	if kind == "udp" {
		presets = []int32{0, 0x7fff - 3, 0xffff - 2, 0x7fffffff - 3}
	}
	preset := presets[presetSel]
	r.Param("preset", preset)

	// peer behaviour as controller options
	src := &optSource{}
	sim.AddSource(src)
	strayN := 0
	mainPhase := false
	src.f = func() []verifsim.Option {
		var out []verifsim.Option
		for i, q := range reqs {
			q := q
			if q.answered == 0 {
				out = append(out, verifsim.Option{Label: fmt.Sprintf("respond %d", i), Do: func() {
					q.answered++
					send(q, q.index, intReply(c09f(q.nonce)))
				}})
			} else if q.answered == 1 && dupBudget > 0 && mainPhase {
				out = append(out, verifsim.Option{Label: fmt.Sprintf("dup %d", i), Do: func() {
					q.answered++
					dupBudget--
					sim.Fault("duplicate-response")
					send(q, q.index, intReply(c09f(q.nonce)))
				}})
			}
		}
		if strays > 0 && len(reqs) > 0 && mainPhase {
			q := reqs[len(reqs)-1]
			out = append(out, verifsim.Option{Label: "stray", Do: func() {
				strays--
				strayN++
				sim.Fault("stray-response")
				idx := (q.index + 5000 + uint32(strayN)*17) & mask
				// a stray answer carries a value no caller expects
				send(q, idx, intReply(-777000-strayN))
			}})
		}
		return out
	}

	// warm-up call establishes the connection, then the counter is preset
	var calls []*c09call
	warm := &c09call{id: 0, nonce: 999}
	calls = append(calls, warm)
	sim.Task("awarm", func() {
		warm.res, warm.err = client.Invoke("hold", []interface{}{warm.nonce})
		warm.done = true
	})
	if !c09Drive(r, sim, kind, mode, calls, nil, nil) {
		return
	}
	sim.Drive(func() bool { return false })
	if preset != 0 {
		setCounter(preset)
	}
	mainPhase = true
	for _, q := range reqs {
		q.answered = 2 // the warm-up's index may legitimately be reused after the wrap: never duplicate it
	}
	id := 0
	for i := 0; i < ncallers; i++ {
		var mine []*c09call
		for j := 0; j < perCaller; j++ {
			id++
			c := &c09call{id: id, nonce: 1000 + id*13}
			mine = append(mine, c)
			calls = append(calls, c)
		}
		sim.Task(fmt.Sprintf("caller%02d", i), func() {
			for _, c := range mine {
				sim.Event("invoke", c.id, c.nonce)
				c.res, c.err = client.Invoke("hold", []interface{}{c.nonce})
				c.done = true
				sim.Event("return", c.id, fmt.Sprint(c.res), fmt.Sprint(c.err))
			}
		})
	}
	if !c09Drive(r, sim, kind, mode, calls, func() string { return fmt.Sprintf("requests seen by the peer: %d;", len(reqs)) }, nil) {
		return
	}
	// let remaining duplicates and strays be sent and delivered, then one more call must still work
	sim.Drive(func() bool { return false })
	if sim.Failure() != nil {
		return
	}
	last := &c09call{id: id + 1, nonce: 5000}
	calls = append(calls, last)
	sim.Task("zlast", func() {
		last.res, last.err = client.Invoke("hold", []interface{}{last.nonce})
		last.done = true
	})
	if !c09Drive(r, sim, kind, mode, calls, nil, nil) {
		return
	}
	sim.Drive(func() bool { return false })
	if _, p := pending(); p > 0 {
		r.Fail("C09:pending-entries-left:"+mode+":"+kind, "%d pending entries after all calls returned (duplicates and strays must be discarded)", p)
	}
}

type optSource struct{ f func() []verifsim.Option }

func (o *optSource) Options(now time.Time) []verifsim.Option { return o.f() }
func (o *optSource) NextDue(now time.Time) (time.Time, bool) { return time.Time{}, false }

// ---- reverse calls: service -> provider

func c09Reverse(r *Run, sim *verifsim.Sim, kind string, ncallers, perCaller int) {
	mode := "reverse"
	service := core.NewService()
	caller := reverse.NewCaller(service)
	caller.Timeout = time.Hour
	caller.HeartBeat = 0
	caller.IdleTimeout = 10 * time.Minute
	fx := NewFixture(r, kind, service)
	acts := NewActions(sim)
	g := newGate(sim, acts)
	sim.AddSource(g)
	nprov := 1 + r.Plan(2)
	lateProvider := r.Plan(3) == 0
	r.Param("late_provider", lateProvider)
	var provs []*reverse.Provider
	for p := 0; p < nprov; p++ {
		client := fx.NewClient()
		client.Timeout = time.Hour
		prov := reverse.NewProvider(client, fmt.Sprintf("prov%d", p))
		prov.AddFunction(func(nonce int) int {
			g.hold(nonce)
			return c09f(nonce)
		}, "hold")
		provs = append(provs, prov)
		sim.Task(fmt.Sprintf("provider%d", p), func() {
			if lateProvider {
				// the calls queue up at the caller's service before anybody fetches them
				time.Sleep(80 * time.Millisecond)
				verifsim.ForceYield(-14)
			}
			prov.Listen()
		})
	}
	var calls []*c09call
	id := 0
	// impatient mode: the provider's functions are all held for 100 ms of fake time and one caller gives up after
	// 50 ms: its result comes back, in one batch with its siblings', for a call nobody waits for any more - the
	// siblings must get theirs all the same
	impatientMode := r.Plan(3) == 0
	impatientIdx := 0
	if impatientMode {
		g.notBefore = 100 * time.Millisecond
		r.Param("impatient", true)
		impatientIdx = r.Plan(ncallers) // not necessarily the head of the queue
	}
	for i := 0; i < ncallers; i++ {
		var mine []*c09call
		for j := 0; j < perCaller; j++ {
			id++
			c := &c09call{id: id, nonce: 1000 + id*13}
			mine = append(mine, c)
			calls = append(calls, c)
		}
		target := fmt.Sprintf("prov%d", i%nprov)
		if impatientMode && i == impatientIdx {
			mine[0].impatient = true
		}
		mine[0].queuedEarly = lateProvider
		sim.Task(fmt.Sprintf("caller%02d", i), func() {
			for _, c := range mine {
				sim.Event("invoke", c.id, c.nonce, target)
				ctx := context.Background()
				if c.impatient {
					var cancel context.CancelFunc
					ctx, cancel = context.WithTimeout(ctx, 50*time.Millisecond)
					defer cancel()
				}
				c.res, c.err = caller.InvokeContext(ctx, target, "hold", []interface{}{c.nonce}, reflect.TypeOf(0))
				c.done = true
				sim.Event("return", c.id, fmt.Sprint(c.res), fmt.Sprint(c.err))
			}
		})
	}
	if !c09Drive(r, sim, kind, mode, calls, nil, g.seen) {
		return
	}
	_ = websocket.VerifNetDial
}
