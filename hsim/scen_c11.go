package hsim

// C11 Faults are contained to the call that caused them.

import (
	"context"
	"errors"
	"fmt"
	"net"
	"net/http"
	"os"
	"strings"
	"time"

	fws "github.com/fasthttp/websocket"
	"github.com/hprose/hprose-golang/v3/rpc/core"
	"github.com/hprose/hprose-golang/v3/rpc/plugins/timeout"
	"github.com/hprose/hprose-golang/v3/rpc/socket"
	"github.com/hprose/hprose-golang/v3/rpc/udp"
	"github.com/hprose/hprose-golang/v3/rpc/websocket"
	"verifsim"
)

func init() { scenarios["C11"] = scenC11 }

type c11poison struct {
	name  string
	kinds []string // nil = all kinds
	topo  string   // "service" or "rawserver"
}

var c11Poisons = []c11poison{
	{"fn-panic-string", nil, "service"}, {"fn-panic-error", nil, "service"}, {"fn-panic-int", nil, "service"},
	{"fn-panic-struct", nil, "service"}, {"fn-panic-runtime", nil, "service"}, {"fn-panic-nil", nil, "service"},
	{"fn-panic-typed-nil-error", nil, "service"}, {"fn-panic-error-whose-Error-panics", nil, "service"}, {"fn-panic-stringer-that-panics", nil, "service"},
	{"raw-call-then-bad-frame", []string{"socket"}, "service"}, {"raw-call-then-close", []string{"socket", "websocket"}, "service"},
	{"missing-panic", nil, "service"}, {"invoke-plugin-panic", nil, "service"}, {"io-plugin-panic", nil, "service"},
	{"timeout-wrapped-panic", nil, "service"}, {"timeout-wrapped-late-panic", nil, "service"},
	{"arg-type-mismatch", nil, "service"}, {"fewer-args", nil, "service"}, {"more-args", nil, "service"},
	{"garbage-request", nil, "service"}, {"truncated-request", nil, "service"}, {"unknown-method", nil, "service"},
	{"raw-short-header", []string{"socket", "udp"}, "service"}, {"raw-bad-crc", []string{"socket", "udp"}, "service"},
	{"raw-lying-length", []string{"socket", "udp"}, "service"},
	{"raw-ws-short-0", []string{"websocket", "websocket-fast"}, "service"}, {"raw-ws-short-3", []string{"websocket", "websocket-fast"}, "service"},
	{"raw-ws-text", []string{"websocket", "websocket-fast"}, "service"},
	{"oversized-request", []string{"udp"}, "service"}, {"oversized-response", []string{"udp"}, "service"},
	{"huge-response", []string{"socket", "websocket", "http"}, "service"},
	{"too-large-request", nil, "service"},
	{"udp-response-size-window", []string{"udp"}, "service"}, {"udp-request-size-window", []string{"udp"}, "service"},
	{"resp-short-header", []string{"socket", "udp"}, "rawserver"}, {"resp-bad-crc", []string{"socket", "udp"}, "rawserver"},
	{"resp-garbage-body", []string{"socket", "udp", "websocket"}, "rawserver"}, {"resp-error-frame", []string{"socket", "udp", "websocket"}, "rawserver"},
	{"resp-ws-short-0", []string{"websocket"}, "rawserver"}, {"resp-ws-short-2", []string{"websocket"}, "rawserver"}, {"resp-ws-short-3", []string{"websocket"}, "rawserver"},
	{"resp-lying-length", []string{"socket", "udp"}, "rawserver"},
}

type c11panicStruct struct{ A, B int }

type c11err struct{ msg string }

func (e *c11err) Error() string { return e.msg } // panics on a nil receiver

type c11badStringer struct{}

func (c11badStringer) String() string { panic("String() panics too") }

func c11boom(k int) {
	switch k {
	case 0:
		panic("boom string")
	case 1:
		panic(errors.New("boom error"))
	case 2:
		panic(42)
	case 3:
		panic(c11panicStruct{1, 2})
	case 4:
		var m map[string]int
		m["x"] = 1
	case 5:
		panic(nil)
	case 6:
		var e *c11err
		panic(e)
	case 7:
		panic(&os.PathError{})
	case 8:
		panic(c11badStringer{})
	}
}

type c11call struct {
	label string
	done  bool
	res   []interface{}
	err   error
}

func scenC11(r *Run) {
	// enumerate (poison, kind) by run index
	type pk struct {
		p    c11poison
		kind string
	}
	var all []pk
	for _, p := range c11Poisons {
		ks := p.kinds
		if ks == nil {
			ks = AllKinds
		}
		for _, k := range ks {
			all = append(all, pk{p, k})
		}
	}
	sel := all[r.Index%len(all)]
	if v, ok := r.Opt["poison"]; ok {
		for _, x := range all {
			if x.p.name == v && (r.Opt["kind"] == "" || r.Opt["kind"] == x.kind) {
				sel = x
				break
			}
		}
	}
	poison, kind := sel.p.name, sel.kind
	pool := r.PlanBool(2)
	r.Param("poison", poison)
	r.Param("kind", kind)
	r.Param("pool", pool)
	RegisterKind(kind)
	sim := r.StartSim(verifsim.Config{IdleCap: 10 * time.Minute, StepCap: 150000})
	if sel.p.topo == "rawserver" {
		c11RawServer(r, sim, kind, poison)
		return
	}
	service := core.NewService()
	// what the plugins, the missing-method handler and the timeout-wrapped function panic with
	pv := r.Plan(9)
	r.Param("panic_value", pv)
	service.AddFunction(func(x int) int { return x + 1 }, "ok")
	service.AddFunction(func(k int) int { c11boom(k); return k }, "boom")
	service.AddFunction(func(n int) string { return strings.Repeat("r", n) }, "big")
	slowRuns := 0
	service.AddFunction(func(ms int) int {
		slowRuns++
		time.Sleep(time.Duration(ms) * time.Millisecond)
		return ms
	}, "slow")
	service.AddMissingMethod(func(name string, args []interface{}) ([]interface{}, error) {
		if name == "missboom" {
			c11boom(pv)
			panic("missing-method boom")
		}
		return nil, errors.New("no such method: " + name)
	})
	service.Use(func(ctx context.Context, name string, args []interface{}, next core.NextInvokeHandler) ([]interface{}, error) {
		if name == "plugboom" {
			c11boom(pv)
			panic("invoke plugin boom")
		}
		return next(ctx, name, args)
	})
	service.Use(func(ctx context.Context, request []byte, next core.NextIOHandler) ([]byte, error) {
		if strings.Contains(string(request), "IOBOOM") {
			c11boom(pv)
			panic("io plugin boom")
		}
		return next(ctx, request)
	})
	if poison == "timeout-wrapped-panic" {
		service.Use(timeout.New(5 * time.Second).Handler)
	}
	if poison == "timeout-wrapped-late-panic" {
		// the function outlives its execution timeout and panics afterwards, when nobody waits for it any more
		service.Use(timeout.New(100 * time.Millisecond).Handler)
		service.AddFunction(func(k int) int {
			time.Sleep(300 * time.Millisecond)
			c11boom(k)
			return k
		}, "lateboom")
	}
	if poison == "too-large-request" {
		service.MaxRequestLength = 2000
	}
	service.AddFunction(func(s string) int { return len(s) }, "length")
	fx := NewFixture(r, kind, service)
	if pool {
		if r.PlanBool(2) {
			fx.SetPool(newBoundedPool(sim, 2)) // two workers: a stuck task is not free
		} else {
			fx.SetPool(&simPool{sim: sim})
		}
	}
	c1, c2 := fx.NewClient(), fx.NewClient()
	c1.Timeout, c2.Timeout = 5*time.Second, 5*time.Second

	var calls []*c11call
	invoke := func(c *core.Client, label, name string, args ...interface{}) *c11call {
		cl := &c11call{label: label}
		calls = append(calls, cl)
		sim.Event("invoke", label, name)
		cl.res, cl.err = c.Invoke(name, args)
		cl.done = true
		sim.Event("return", label, fmt.Sprint(cl.res), fmt.Sprint(cl.err))
		return cl
	}
	okResult := func(cl *c11call, x int) bool {
		return cl.err == nil && len(cl.res) == 1 && fmt.Sprint(cl.res[0]) == fmt.Sprint(x+1)
	}
	cls := func(what string) string { return "C11:" + what + ":" + poison + ":" + kind }

	// 1. sentinels before
	phase := 0
	var b1, b2 *c11call
	sim.Task("a-before", func() {
		b1 = invoke(c1, "before-c1", "ok", 1)
		b2 = invoke(c2, "before-c2", "ok", 2)
		phase = 1
	})
	if sim.Drive(func() bool { return phase == 1 }) != verifsim.Done || !okResult(b1, 1) || !okResult(b2, 2) {
		if sim.Failure() == nil {
			r.Fail(cls("sentinel-before-failed"), "healthy calls before the fault: %+v %+v", b1, b2)
		}
		return
	}

	// 2. the poison, with sentinels racing on the same and on another connection
	var pz *c11call
	poisonDone, d1done, d2done := false, false, false
	var d1, d1b, d2 *c11call
	windowN := 0
	sim.Task("poison", func() {
		sim.Fault("poison")
		switch poison {
		case "fn-panic-string", "fn-panic-error", "fn-panic-int", "fn-panic-struct", "fn-panic-runtime", "fn-panic-nil",
			"fn-panic-typed-nil-error", "fn-panic-error-whose-Error-panics", "fn-panic-stringer-that-panics":
			k := map[string]int{"fn-panic-string": 0, "fn-panic-error": 1, "fn-panic-int": 2, "fn-panic-struct": 3, "fn-panic-runtime": 4, "fn-panic-nil": 5,
				"fn-panic-typed-nil-error": 6, "fn-panic-error-whose-Error-panics": 7, "fn-panic-stringer-that-panics": 8}[poison]
			pz = invoke(c1, "poison", "boom", k)
		case "timeout-wrapped-panic":
			pz = invoke(c1, "poison", "boom", pv)
		case "timeout-wrapped-late-panic":
			pz = invoke(c1, "poison", "lateboom", pv)
			// let the function reach its panic before the run goes on
			time.Sleep(400 * time.Millisecond)
			verifsim.ForceYield(-13)
		case "missing-panic":
			pz = invoke(c1, "poison", "missboom", 1)
		case "invoke-plugin-panic":
			pz = invoke(c1, "poison", "plugboom", 1)
		case "io-plugin-panic":
			pz = invoke(c1, "poison", "ok", "IOBOOM")
		case "arg-type-mismatch":
			pz = invoke(c1, "poison", "ok", "not a number")
		case "fewer-args":
			pz = invoke(c1, "poison", "ok")
		case "more-args":
			pz = invoke(c1, "poison", "ok", 1, 2, 3)
		case "unknown-method":
			pz = invoke(c1, "poison", "nosuch", 1)
		case "garbage-request", "truncated-request":
			body := []byte("\xff\x00\x01garbage{{{\"")
			if poison == "truncated-request" {
				body = []byte(`Cs2"ok"a1{s100"abc`)
			}
			cl := &c11call{label: "poison"}
			calls = append(calls, cl)
			var resp []byte
			resp, cl.err = c1.Request(clientCtx(c1), body)
			if cl.err == nil {
				// the error travels inside a well-formed response
				if len(resp) > 0 && resp[0] == 'E' {
					cl.err = errors.New(string(resp))
				} else {
					cl.res = []interface{}{string(resp)}
				}
			}
			cl.done = true
			pz = cl
			sim.Event("return", "poison", fmt.Sprint(cl.res), fmt.Sprint(cl.err))
		case "oversized-request":
			n := []int{65500, 65507, 70000, 200000}[r.Plan(4)]
			pz = invoke(c1, "poison", "ok", strings.Repeat("q", n))
		case "oversized-response":
			n := []int{65500, 65507, 70000, 200000}[r.Plan(4)]
			pz = invoke(c1, "poison", "big", n)
		case "too-large-request":
			// refused by the service's own limit: an error for this call (the transport may close the connection)
			pz = invoke(c1, "poison", "length", strings.Repeat("q", 2000+r.Plan(3000)))
		case "udp-response-size-window", "udp-request-size-window":
			// sizes around the largest body a datagram carries (65,499): whether the call succeeds depends on
			// the encoded size; either way it is this call's business only
			n := 65470 + r.Plan(45)
			r.Param("size", n)
			windowN = n
			if poison == "udp-response-size-window" {
				pz = invoke(c1, "poison", "big", n)
			} else {
				pz = invoke(c1, "poison", "length", strings.Repeat("q", n))
			}
		case "huge-response":
			big := invoke(c1, "large", "big", 1<<20)
			if big.err != nil || len(big.res) != 1 || len(fmt.Sprint(big.res[0])) != 1<<20 {
				r.Fail(cls("large-response-failed"), "a 1 MiB response failed: %v", big.err)
			}
		case "raw-short-header", "raw-bad-crc", "raw-lying-length":
			c11RawClientPoison(fx, poison, r)
		case "raw-call-then-bad-frame", "raw-call-then-close":
			// two calls are still executing on the connection when a fault ends it
			if strings.HasPrefix(kind, "websocket") {
				if c, err := wsDial(fx); err == nil {
					c.WriteMessage(fws.BinaryMessage, append([]byte{0, 0, 0, 1}, []byte(`Cs4"slow"a1{i200;}z`)...))
					c.WriteMessage(fws.BinaryMessage, append([]byte{0, 0, 0, 2}, []byte(`Cs4"slow"a1{i300;}z`)...))
					time.Sleep(10 * time.Millisecond)
					verifsim.ForceYield(-10)
					c.UnderlyingConn().Close()
				}
				break
			}
			c := rawStream(fx)
			c.Write(sockFrame(1, []byte(`Cs4"slow"a1{i200;}z`)))
			c.Write(sockFrame(2, []byte(`Cs4"slow"a1{i300;}z`)))
			time.Sleep(10 * time.Millisecond)
			verifsim.ForceYield(-10)
			if poison == "raw-call-then-bad-frame" {
				bad := sockFrame(3, []byte("x"))
				bad[0] ^= 0xff
				c.Write(bad)
				time.Sleep(10 * time.Millisecond)
				verifsim.ForceYield(-11)
			}
			c.Close()
		case "raw-ws-short-0", "raw-ws-short-3", "raw-ws-text":
			c11RawWSPoison(fx, poison)
		}
		poisonDone = true
	})
	sim.Task("during-c1", func() {
		d1 = invoke(c1, "during-c1", "ok", 10)
		if d1.err != nil {
			// it shared the connection the fault ended; now that it has been told, an immediate new attempt
			// must not be handed that dead connection again
			d1b = invoke(c1, "during-c1-again", "ok", 11)
		}
		d1done = true
	})
	sim.Task("during-c2", func() { d2 = invoke(c2, "during-c2", "ok", 20); d2done = true })
	st := sim.Drive(func() bool { return poisonDone && d1done && d2done })
	if sim.Failure() != nil {
		return
	}
	if st != verifsim.Done {
		if st == verifsim.StepCap {
			r.Res.Verdict = "inconclusive"
			return
		}
		r.Fail(cls("call-never-returns"), "status %v: poison done %v, sentinel on same connection done %v, on other connection done %v; parked %v", st, poisonDone, d1done, d2done, sim.ParkedNames())
		return
	}
	if pz != nil && pz.err == nil && windowN > 0 {
		// a call at the size boundary may fit: then its result must be right
		got := ""
		if len(pz.res) == 1 {
			got = fmt.Sprint(pz.res[0])
		}
		if (poison == "udp-response-size-window" && len(got) != windowN) || (poison == "udp-request-size-window" && got != fmt.Sprint(windowN)) {
			r.Fail(cls("wrong-result"), "the boundary-size call (%d) returned a result of %d bytes without error", windowN, len(got))
			return
		}
	} else if pz != nil && pz.err == nil {
		r.Fail(cls("poisoned-call-succeeded"), "the poisoned call returned %v without error", pz.res)
		return
	}
	if !okResult(d2, 20) {
		r.Fail(cls("other-connection-affected"), "a healthy call on another connection, concurrent with the fault, ended with %v %v", d2.res, d2.err)
		return
	}
	if d1b != nil && d1b.err != nil && pz != nil && pz.err != nil && d1.err.Error() == pz.err.Error() && d1b.err.Error() == d1.err.Error() {
		r.Fail(cls("stale-connection-handed-out"), "a healthy call sharing the faulty call's connection failed with the connection's error (%v); issued again at once, it failed with the same error again although the server is healthy: it was given the dead connection", d1.err)
		return
	}
	if d1.err == nil && !okResult(d1, 10) {
		r.Fail(cls("wrong-result"), "sentinel on the same connection returned %v", d1.res)
		return
	}

	// 3. afterwards: same client (one retry allowed), other client, fresh client
	sim.Drive(func() bool { return false })
	if sim.Failure() != nil {
		return
	}
	c3 := fx.NewClient()
	c3.Timeout = 5 * time.Second
	var a1, a1b, a2, a3 *c11call
	sim.Task("z-after", func() {
		a1 = invoke(c1, "after-c1", "ok", 30)
		if !okResult(a1, 30) {
			a1b = invoke(c1, "after-c1-retry", "ok", 31)
		}
		a2 = invoke(c2, "after-c2", "ok", 40)
		a3 = invoke(c3, "after-c3", "ok", 50)
		phase = 3
	})
	st = sim.Drive(func() bool { return phase == 3 })
	if sim.Failure() != nil {
		return
	}
	if st != verifsim.Done {
		r.Fail(cls("call-never-returns-after"), "status %v after the fault; parked %v", st, sim.ParkedNames())
		return
	}
	if !okResult(a1, 30) && (a1b == nil || !okResult(a1b, 31)) {
		r.Fail(cls("client-unusable-after"), "after the fault the client that issued it failed twice in a row: %v / %v", a1.err, a1b.err)
		return
	}
	if !okResult(a2, 40) {
		r.Fail(cls("other-client-affected-after"), "after the fault a healthy call on another client ended with %v %v", a2.res, a2.err)
		return
	}
	if !okResult(a3, 50) {
		r.Fail(cls("server-stopped-serving"), "after the fault a fresh client cannot call the service: %v %v", a3.res, a3.err)
		return
	}
	// nothing that belonged to the faulty exchange may stay behind: with no call in
	// flight, no per-request goroutine or pool task of the server is still alive
	sim.Drive(func() bool { return false })
	if sim.Failure() != nil {
		return
	}
	var stuck []string
	for _, n := range sim.LiveTasks("") {
		o := r.Sites.TaskOrigin(n)
		if strings.Contains(o, "go h.run") || (strings.HasPrefix(n, "pool") && sim.TaskState(n) == "blocked" && busyWorker(fx, n)) {
			stuck = append(stuck, n+" ("+o+")")
		}
	}
	if len(stuck) > 0 {
		r.Fail(cls("request-goroutine-stuck"), "no call is in flight any more, yet these per-request tasks of the server never ended: %v", stuck)
	}
}

// boundedPool is a worker pool with a fixed number of workers (simulated tasks).
type boundedPool struct {
	sim   *verifsim.Sim
	queue chan func()
	busy  map[string]bool
}

func newBoundedPool(sim *verifsim.Sim, n int) *boundedPool {
	p := &boundedPool{sim: sim, queue: make(chan func(), 1024), busy: map[string]bool{}}
	for i := 0; i < n; i++ {
		name := fmt.Sprintf("pool-worker%d", i)
		sim.Task(name, func() {
			for f := range p.queue {
				verifsim.ForceYield(-12)
				p.busy[name] = true
				f()
				p.busy[name] = false
			}
		})
	}
	return p
}

func (p *boundedPool) Submit(f func()) { p.queue <- f }

func busyWorker(fx *Fixture, name string) bool {
	if bp, ok := fx.poolRef.(*boundedPool); ok {
		return bp.busy[name]
	}
	return true
}

// c11RawClientPoison sends a malformed frame from a raw peer to the real handler.
func c11RawClientPoison(fx *Fixture, poison string, r *Run) {
	body := []byte(`Cs2"ok"a1{1}z`)
	var frame []byte
	if fx.Kind == "udp" {
		frame = udpFrame(7, body)
		switch poison {
		case "raw-short-header":
			frame = frame[:[]int{0, 1, 3, 7}[r.Plan(4)]]
		case "raw-bad-crc":
			frame[1] ^= 0x40
		case "raw-lying-length":
			frame = append(udpHeader(60000, 7), body...)
		}
		c, _ := fx.UDP.Dial(fx.udpSrv)
		c.Write(frame)
		return
	}
	frame = sockFrame(7, body)
	switch poison {
	case "raw-short-header":
		frame = frame[:[]int{1, 5, 11}[r.Plan(3)]]
	case "raw-bad-crc":
		frame[1] ^= 0x40
	case "raw-lying-length":
		frame = append(sockHeader(1<<20, 7), body...)
	}
	c := rawStream(fx)
	c.Write(frame)
	c.Close()
}

func wsDial(fx *Fixture) (*fws.Conn, error) {
	d := fws.Dialer{NetDialContext: func(ctx context.Context, network, addr string) (net.Conn, error) {
		return fx.Net.Dial(ctx, fx.Addr)
	}, Subprotocols: []string{"hprose"}}
	c, resp, err := d.Dial("ws://"+fx.Addr+"/", nil)
	verifsim.ForceYield(-6)
	if resp != nil && resp.Body != nil {
		resp.Body.Close()
	}
	return c, err
}

func c11RawWSPoison(fx *Fixture, poison string) {
	c, err := wsDial(fx)
	if err != nil {
		return
	}
	switch poison {
	case "raw-ws-short-0":
		c.WriteMessage(fws.BinaryMessage, nil)
	case "raw-ws-short-3":
		c.WriteMessage(fws.BinaryMessage, []byte{0, 0, 1})
	case "raw-ws-text":
		c.WriteMessage(fws.TextMessage, []byte("hello"))
	}
	c.SetReadDeadline(time.Now().Add(2 * time.Second))
	c.ReadMessage()
	verifsim.ForceYield(-7)
	c.Close()
}

// c11RawServer: two real clients against a raw server peer that answers one
// call of client 1 with a malformed response.
func c11RawServer(r *Run, sim *verifsim.Sim, kind, poison string) {
	f := &Fixture{Kind: kind, R: r}
	f.Net = NewNet(sim)
	f.UDP = NewUDPNet(sim)
	cls := func(what string) string { return "C11:" + what + ":" + poison + ":" + kind }
	// respond decides what to answer for a request of the given nonce
	respond := func(nonce int, index uint32) (frames [][]byte, closeAfter bool) {
		good := intReply(nonce + 1)
		mk := func(idx uint32, b []byte) []byte {
			switch kind {
			case "udp":
				return udpFrame(uint16(idx), b)
			case "websocket":
				return append([]byte{byte(idx >> 24), byte(idx >> 16), byte(idx >> 8), byte(idx)}, b...)
			}
			return sockFrame(idx, b)
		}
		if nonce != 666 {
			return [][]byte{mk(index, good)}, false
		}
		sim.Fault("poison")
		fr := mk(index, good)
		switch poison {
		case "resp-short-header":
			if kind == "udp" {
				return [][]byte{fr[:[]int{0, 3, 7}[r.Plan(3)]]}, false
			}
			return [][]byte{fr[:[]int{1, 5, 11}[r.Plan(3)]]}, true
		case "resp-bad-crc":
			fr[2] ^= 0x10
			return [][]byte{fr}, false
		case "resp-garbage-body":
			return [][]byte{mk(index, []byte("\xff\xfegarbage{{\""))}, false
		case "resp-error-frame":
			if kind == "udp" {
				return [][]byte{mk(index|0x8000, []byte("custom failure"))}, false
			}
			return [][]byte{mk(index|0x80000000, []byte("custom failure"))}, false
		case "resp-ws-short-0":
			return [][]byte{{}}, false
		case "resp-ws-short-2":
			return [][]byte{{0, 1}}, false
		case "resp-ws-short-3":
			return [][]byte{{0, 0, 1}}, false
		case "resp-lying-length":
			if kind == "udp" {
				return [][]byte{append(udpHeader(50000, uint16(index)), good...)}, false
			}
			return [][]byte{append(sockHeader(1<<20, index), good...)}, true
		}
		return [][]byte{fr}, false
	}
	var url string
	switch kind {
	case "socket":
		addr := "10.0.0.1:8412"
		url = "tcp://" + addr + "/"
		l := f.Net.Listen(addr)
		socket.VerifDial = func(ctx context.Context) (net.Conn, error) { return f.Net.Dial(ctx, addr) }
		sim.Task("peer-accept", func() {
			k := 0
			for {
				c, err := l.Accept()
				verifsim.ForceYield(-1)
				if err != nil {
					return
				}
				k++
				sim.Task(fmt.Sprintf("peer-read%d", k), func() {
					for {
						idx, body, ok, err := readSockFrame(c)
						verifsim.ForceYield(-2)
						if err != nil || !ok {
							return
						}
						_, nonce, _ := parseIntCall(body)
						frames, cl := respond(nonce, idx)
						for _, fr := range frames {
							c.Write(fr)
						}
						if cl {
							c.Close()
							return
						}
					}
				})
			}
		})
	case "udp":
		url = "udp://10.0.0.1:8412/"
		srv := f.UDP.Listen(8412)
		udp.VerifDial = func(ctx context.Context) (net.Conn, error) {
			c, err := f.UDP.Dial(srv)
			if err != nil {
				return nil, err
			}
			return c, nil
		}
		sim.Task("peer-read", func() {
			buf := make([]byte, 65507)
			for {
				n, from, err := srv.ReadFromUDP(buf)
				verifsim.ForceYield(-2)
				if err != nil {
					return
				}
				idx, body, ok := parseUDPFrame(buf[:n])
				if !ok {
					continue
				}
				_, nonce, _ := parseIntCall(body)
				frames, _ := respond(nonce, uint32(idx))
				for _, fr := range frames {
					srv.WriteToUDP(fr, from)
				}
			}
		})
	case "websocket":
		addr := "10.0.0.1:8080"
		url = "ws://" + addr + "/"
		l := f.Net.Listen(addr)
		websocket.VerifNetDial = func(ctx context.Context, network, a string) (net.Conn, error) { return f.Net.Dial(ctx, addr) }
		up := fws.Upgrader{Subprotocols: []string{"hprose"}}
		srv := &http.Server{Handler: http.HandlerFunc(func(w http.ResponseWriter, req *http.Request) {
			c, err := up.Upgrade(w, req, nil)
			if err != nil {
				return
			}
			defer c.Close()
			for {
				_, msg, err := c.ReadMessage()
				verifsim.ForceYield(-8)
				if err != nil || len(msg) < 4 {
					return
				}
				idx := uint32(msg[0])<<24 | uint32(msg[1])<<16 | uint32(msg[2])<<8 | uint32(msg[3])
				_, nonce, _ := parseIntCall(msg[4:])
				frames, _ := respond(nonce, idx)
				for _, fr := range frames {
					c.WriteMessage(fws.BinaryMessage, fr)
				}
			}
		})}
		sim.Task("srv", func() { srv.Serve(l) })
	}
	c1, c2 := core.NewClient(url), core.NewClient(url)
	c1.Timeout, c2.Timeout = 5*time.Second, 5*time.Second
	type res struct {
		r   []interface{}
		err error
	}
	call := func(c *core.Client, label string, nonce int) res {
		sim.Event("invoke", label, nonce)
		rr, err := c.Invoke("ok", []interface{}{nonce})
		sim.Event("return", label, fmt.Sprint(rr), fmt.Sprint(err))
		return res{rr, err}
	}
	ok := func(x res, nonce int) bool {
		return x.err == nil && len(x.r) == 1 && fmt.Sprint(x.r[0]) == fmt.Sprint(nonce+1)
	}
	phase := 0
	var b1, b2 res
	sim.Task("a-before", func() { b1 = call(c1, "before-c1", 1); b2 = call(c2, "before-c2", 2); phase = 1 })
	if sim.Drive(func() bool { return phase == 1 }) != verifsim.Done || !ok(b1, 1) || !ok(b2, 2) {
		if sim.Failure() == nil {
			r.Fail(cls("sentinel-before-failed"), "healthy calls before the fault: %v %v", b1, b2)
		}
		return
	}
	var pz, d1, d2 res
	n := 0
	sim.Task("poison", func() { pz = call(c1, "poison", 666); n++ })
	var d1b *res
	sim.Task("during-c1", func() {
		d1 = call(c1, "during-c1", 10)
		if d1.err != nil {
			x := call(c1, "during-c1-again", 11)
			d1b = &x
		}
		n++
	})
	sim.Task("during-c2", func() { d2 = call(c2, "during-c2", 20); n++ })
	st := sim.Drive(func() bool { return n == 3 })
	if sim.Failure() != nil {
		return
	}
	if st != verifsim.Done {
		if st == verifsim.StepCap {
			r.Res.Verdict = "inconclusive"
			return
		}
		r.Fail(cls("call-never-returns"), "status %v, %d of 3 calls returned; parked %v", st, n, sim.ParkedNames())
		return
	}
	if pz.err == nil {
		r.Fail(cls("poisoned-call-succeeded"), "the call answered with a malformed response returned %v without error", pz.r)
		return
	}
	if !ok(d2, 20) {
		r.Fail(cls("other-connection-affected"), "a healthy call on another client, concurrent with the malformed response, ended with %v %v", d2.r, d2.err)
		return
	}
	if d1.err == nil && !ok(d1, 10) {
		r.Fail(cls("wrong-result"), "sentinel on the same connection returned %v", d1.r)
		return
	}
	if d1b != nil && d1b.err != nil && d1.err.Error() == pz.err.Error() && d1b.err.Error() == d1.err.Error() {
		r.Fail(cls("stale-connection-handed-out"), "a healthy call sharing the connection failed with the connection's error (%v); issued again at once, it failed with the same error again although the peer answers healthy calls: it was given the dead connection", d1.err)
		return
	}
	sim.Drive(func() bool { return false })
	var a1, a1b, a2 res
	retried := false
	sim.Task("z-after", func() {
		a1 = call(c1, "after-c1", 30)
		if !ok(a1, 30) {
			retried = true
			a1b = call(c1, "after-c1-retry", 31)
		}
		a2 = call(c2, "after-c2", 40)
		phase = 3
	})
	st = sim.Drive(func() bool { return phase == 3 })
	if sim.Failure() != nil {
		return
	}
	if st != verifsim.Done {
		r.Fail(cls("call-never-returns-after"), "status %v after the fault; parked %v", st, sim.ParkedNames())
		return
	}
	if !ok(a1, 30) && (!retried || !ok(a1b, 31)) {
		r.Fail(cls("client-unusable-after"), "after the malformed response the client failed twice in a row: %v / %v", a1.err, a1b.err)
		return
	}
	if !ok(a2, 40) {
		r.Fail(cls("other-client-affected-after"), "after the fault a healthy call on another client ended with %v %v", a2.r, a2.err)
	}
}
