package hsim

import "github.com/hprose/hprose-golang/v3/rpc/core"

func registerMore()                        {}
func (f *Fixture) startMore(kind string) bool { return false }
func (f *Fixture) clientMore(c *core.Client)  {}
