#include "textflag.h"

// func getg() unsafe.Pointer
TEXT ·getg(SB),NOSPLIT,$0-8
	MOVQ (TLS), AX
	MOVQ AX, ret+0(FP)
	RET
