package verifsim

import (
	"crypto/sha256"
	"encoding/hex"
	"fmt"
	"hash"
	"sort"
	"sync"
	"time"
)

// Scheduling policies.
const (
	PolicyRunToBlock = 0 // no preemption: pure message/timer interleaving
	PolicyRandom     = 1 // random pick, preemption after tape-drawn gaps
	PolicyPCT        = 2 // random priorities, a few priority change points
)

// Config of one simulated run. All fields are filled by the scenario, usually
// from the plan stream of the tape.
type Config struct {
	Policy int
	// GapChoices: for PolicyRandom, on every release of a task one value is drawn;
	// 0 means "run until it blocks", g > 0 means "preempt after g yields".
	GapChoices []int
	// PCTDepth change points are drawn in [1, PCTSteps].
	PCTDepth, PCTSteps int
	// StallChoices: when non-empty the controller may let fake time pass while
	// tasks stay parked.
	StallChoices []time.Duration
	// StallWeight: a stall is chosen with probability 1/(n*StallWeight+1) when n
	// other options exist (default 16).
	StallWeight int
	StepCap      int
	IdleCap      time.Duration
	Trace        bool
	NSites       int
	// SiteOff[i] true: yields at site i are inert in this run.
	SiteOff []bool
}

// Option is one thing the controller may do next besides running a task.
type Option struct {
	Label string
	Do    func()
}

// Source contributes controller decisions (network deliveries, faults).
type Source interface {
	Options(now time.Time) []Option
	// NextDue reports the earliest future instant at which Options may change
	// by the passage of time alone.
	NextDue(now time.Time) (time.Time, bool)
}

// Event is one record of the history, stamped with the global sequence number.
type Event struct {
	Seq    uint64
	Kind   string
	Fields []interface{}
}

// Status of a Drive call.
type Status int

const (
	Done Status = iota
	Idle
	StepCap
	Failed
)

func (st Status) String() string {
	return [...]string{"done", "idle", "stepcap", "failed"}[st]
}

// Failure is a violation recorded by an invariant or oracle.
type Failure struct {
	Class  string
	Detail string
	Seq    uint64
}

// Sim is one simulated run.
type Sim struct {
	mu      sync.Mutex
	tasks   map[int64]*Task
	parked  []*Task
	running int64
	ctrl    int64
	notify  chan struct{}
	Tape    *Tape
	// Wait must be synctest.Wait (injected so that this module needs no go1.25).
	Wait func()
	cfg  Config

	steps, progress, gap int64
	change               map[int64]bool
	lowPrio              int
	extSeq               map[int]int
	nopre                map[int64]int
	siteOff              []bool
	siteHits, sitePre    []uint32

	seq     uint64
	hash    hash.Hash
	Lines   []string
	Events  []Event
	failure *Failure

	sources     []Source
	invariants  []func() *Failure
	onQuiescent []func()

	// statistics
	decisions, preemptions, spins, selects, spawned, stalls, idleJumps, taskSwitches int
	lastTask                                                                        string
	stallTotal                                                                      time.Duration
	Probes                                                                          map[string]int
	Faults                                                                          map[string]int
	start                                                                           time.Time
}

// DefaultGaps is a gap table with mean around 12 yields; index 0 = run to block.
var DefaultGaps = []int{0, 1, 1, 2, 3, 5, 8, 13, 21, 34, 55}

// Start begins a simulation on the calling goroutine, which becomes the
// controller. It must be called inside the synctest bubble.
func Start(tape *Tape, cfg Config, wait func()) *Sim {
	if cfg.StepCap == 0 {
		cfg.StepCap = 200000
	}
	if cfg.IdleCap == 0 {
		cfg.IdleCap = time.Hour
	}
	if len(cfg.GapChoices) == 0 {
		cfg.GapChoices = DefaultGaps
	}
	s := &Sim{
		tasks: map[int64]*Task{}, notify: make(chan struct{}, 1), Tape: tape, Wait: wait, cfg: cfg,
		extSeq: map[int]int{}, nopre: map[int64]int{}, hash: sha256.New(),
		Probes: map[string]int{}, Faults: map[string]int{}, start: time.Now(),
		siteOff: cfg.SiteOff,
	}
	if cfg.NSites > 0 {
		s.siteHits = make([]uint32, cfg.NSites+1)
		s.sitePre = make([]uint32, cfg.NSites+1)
	}
	s.ctrl = goid()
	if cfg.Policy == PolicyPCT {
		s.change = map[int64]bool{}
		n := cfg.PCTSteps
		if n <= 0 {
			n = 1000
		}
		for i := 0; i < cfg.PCTDepth; i++ {
			s.change[int64(1+tape.Choose(StreamPlan, n))] = true
		}
	}
	cur.Store(s)
	s.Logf("start policy=%d", cfg.Policy)
	return s
}

// Stop ends the simulation: yields become no-ops again and parked tasks stay parked.
func (s *Sim) Stop() { cur.CompareAndSwap(s, nil) }

// Config returns the run's configuration.
func (s *Sim) Config() Config { return s.cfg }

// Logf appends a line to the event log (hashed; kept only when tracing).
func (s *Sim) Logf(f string, a ...interface{}) {
	line := fmt.Sprintf(f, a...)
	s.mu.Lock()
	s.seq++
	fmt.Fprintf(s.hash, "%d %s\n", s.seq, line)
	if s.cfg.Trace {
		s.Lines = append(s.Lines, fmt.Sprintf("%d t=%v %s", s.seq, time.Since(s.start), line))
	}
	s.mu.Unlock()
}

// Event records a history event and returns its global sequence number.
func (s *Sim) Event(kind string, fields ...interface{}) uint64 {
	s.mu.Lock()
	s.seq++
	n := s.seq
	s.Events = append(s.Events, Event{n, kind, fields})
	fmt.Fprintf(s.hash, "%d E %s %v\n", n, kind, fields)
	if s.cfg.Trace {
		s.Lines = append(s.Lines, fmt.Sprintf("%d t=%v E %s %v", n, time.Since(s.start), kind, fields))
	}
	s.mu.Unlock()
	return n
}

// Seq returns the current global sequence number.
func (s *Sim) Seq() uint64 {
	s.mu.Lock()
	defer s.mu.Unlock()
	return s.seq
}

// StallTotal returns the fake time that passed in stall decisions so far (the
// simulation's stand-in for CPU time and scheduling delay).
func (s *Sim) StallTotal() time.Duration {
	s.mu.Lock()
	defer s.mu.Unlock()
	return s.stallTotal
}

// Now returns the fake time elapsed since the start of the run.
func (s *Sim) Now() time.Duration { return time.Since(s.start) }

// LogHash returns the hash of the event log so far.
func (s *Sim) LogHash() string {
	s.mu.Lock()
	defer s.mu.Unlock()
	return hex.EncodeToString(s.hash.Sum(nil))[:32]
}

// Fail records the first violation of the run.
func (s *Sim) Fail(class, detail string) {
	s.mu.Lock()
	if s.failure == nil {
		s.failure = &Failure{Class: class, Detail: detail, Seq: s.seq}
	}
	s.mu.Unlock()
}

// Failure returns the recorded violation or nil.
func (s *Sim) Failure() *Failure {
	s.mu.Lock()
	defer s.mu.Unlock()
	return s.failure
}

// Fault counts a fault that actually fired.
func (s *Sim) Fault(kind string) {
	s.mu.Lock()
	s.Faults[kind]++
	s.mu.Unlock()
}

func (s *Sim) AddSource(src Source)             { s.sources = append(s.sources, src) }
func (s *Sim) Invariant(f func() *Failure)      { s.invariants = append(s.invariants, f) }
func (s *Sim) OnQuiescent(f func())             { s.onQuiescent = append(s.onQuiescent, f) }
func (s *Sim) Choose(n int) int                 { return s.Tape.Choose(StreamSched, n) }
func (s *Sim) Plan(n int) int                   { return s.Tape.Choose(StreamPlan, n) }
func (s *Sim) PlanBool(den int) bool            { return den > 1 && s.Tape.Choose(StreamPlan, den) == den-1 }
func (s *Sim) PlanDur(ds []time.Duration) time.Duration { return ds[s.Tape.Choose(StreamPlan, len(ds))] }

func (s *Sim) prioOf(t *Task) int {
	if !t.hasPrio {
		t.prio = 1000 + s.Tape.Choose(StreamSched, 1<<20)
		t.hasPrio = true
	}
	return t.prio
}

// eligible returns the parked tasks that may be scheduled, sorted by name.
func (s *Sim) eligible() []*Task {
	s.mu.Lock()
	defer s.mu.Unlock()
	sort.Slice(s.parked, func(i, j int) bool { return s.parked[i].Name < s.parked[j].Name })
	var out []*Task
	for _, t := range s.parked {
		if t.spinning && t.spinEpoch == s.progress {
			continue
		}
		out = append(out, t)
	}
	return out
}

// ParkedNames lists every parked task with its site (diagnostics).
func (s *Sim) ParkedNames() []string {
	s.mu.Lock()
	defer s.mu.Unlock()
	var out []string
	for _, t := range s.parked {
		sp := ""
		if t.spinning {
			sp = " spinning"
		}
		out = append(out, fmt.Sprintf("%s@%d%s", t.Name, t.site, sp))
	}
	sort.Strings(out)
	return out
}

// LiveTasks returns the names of registered tasks of the given kind that have
// not returned ("" = all kinds).
func (s *Sim) LiveTasks(kind string) []string {
	s.mu.Lock()
	defer s.mu.Unlock()
	var out []string
	for _, t := range s.tasks {
		if kind == "" || t.Kind == kind {
			out = append(out, t.Name)
		}
	}
	sort.Strings(out)
	return out
}

func (s *Sim) release(t *Task) {
	s.mu.Lock()
	for i, p := range s.parked {
		if p == t {
			s.parked = append(s.parked[:i], s.parked[i+1:]...)
			break
		}
	}
	s.running = t.g
	if !t.spinning {
		// running a task that is not itself waiting for a lock is progress: it may
		// release the lock a spinner waits for without passing another yield
		s.progress++
	}
	if s.cfg.Policy == PolicyRandom {
		s.gap = int64(s.cfg.GapChoices[s.Tape.Choose(StreamSched, len(s.cfg.GapChoices))])
	}
	if t.Name != s.lastTask {
		s.taskSwitches++
		s.lastTask = t.Name
	}
	w := t.wake
	s.mu.Unlock()
	close(w)
}

// Sleep lets d of fake time pass while every task stays where it is (controller only).
func (s *Sim) Sleep(d time.Duration) {
	s.mu.Lock()
	s.running = 0
	s.progress++
	s.mu.Unlock()
	time.Sleep(d)
}

// Drive runs the controller loop until done() holds (checked at quiescent
// points of the serialised execution, i.e. before every decision), the run goes
// idle (nothing runnable, nothing deliverable, no timer within IdleCap), the
// step cap is reached, or a violation was recorded.
func (s *Sim) Drive(done func() bool) Status {
	for {
		if s.decisions >= s.cfg.StepCap {
			return StepCap
		}
		s.Wait()
		if s.Failure() != nil {
			return Failed
		}
		for _, inv := range s.invariants {
			if f := inv(); f != nil {
				s.Fail(f.Class, f.Detail)
				return Failed
			}
		}
		if done != nil && done() {
			return Done
		}
		now := time.Now()
		tasks := s.eligible()
		var opts []Option
		for _, src := range s.sources {
			opts = append(opts, src.Options(now)...)
		}
		if len(tasks)+len(opts) == 0 {
			for _, q := range s.onQuiescent {
				q()
			}
			if s.Failure() != nil {
				return Failed
			}
			d := s.cfg.IdleCap
			timed := false
			for _, src := range s.sources {
				if at, ok := src.NextDue(now); ok {
					if dd := at.Sub(now); dd < d {
						d = dd
						timed = true
					}
				}
			}
			s.mu.Lock()
			s.running = 0
			s.mu.Unlock()
			tm := time.NewTimer(d)
			select {
			case <-s.notify:
				tm.Stop()
				s.mu.Lock()
				s.progress++
				s.idleJumps++
				s.mu.Unlock()
			case <-tm.C:
				s.mu.Lock()
				s.progress++
				s.mu.Unlock()
				if !timed {
					return Idle
				}
			}
			continue
		}
		select {
		case <-s.notify:
		default:
		}
		s.mu.Lock()
		s.running = 0
		s.mu.Unlock()
		s.decisions++

		// candidates
		var cands []*Task
		if s.cfg.Policy == PolicyPCT && len(tasks) > 0 {
			best := tasks[0]
			for _, t := range tasks[1:] {
				if s.prioOf(t) > s.prioOf(best) {
					best = t
				}
			}
			cands = []*Task{best}
		} else {
			cands = tasks
		}
		n := len(cands) + len(opts)
		sw := s.cfg.StallWeight
		if sw <= 0 {
			sw = 16
		}
		w := n * sw
		stall := len(s.cfg.StallChoices) > 0 && len(tasks) > 0
		if stall {
			w++
		}
		v := s.Tape.Choose(StreamSched, w)
		if stall && v == w-1 {
			d := s.cfg.StallChoices[s.Tape.Choose(StreamSched, len(s.cfg.StallChoices))]
			s.stalls++
			s.stallTotal += d
			s.Fault("stall")
			s.Logf("stall %v", d)
			s.Sleep(d)
			continue
		}
		k := v % n
		if k < len(cands) {
			t := cands[k]
			s.Logf("run %s@%d", t.Name, t.site)
			s.release(t)
		} else {
			o := opts[k-len(cands)]
			s.Logf("do %s", o.Label)
			s.mu.Lock()
			s.progress++
			s.mu.Unlock()
			o.Do()
		}
	}
}

// Stats returns counters of the run.
func (s *Sim) Stats() map[string]int {
	s.mu.Lock()
	defer s.mu.Unlock()
	hit, pre := 0, 0
	for _, h := range s.siteHits {
		if h > 0 {
			hit++
		}
	}
	for _, h := range s.sitePre {
		if h > 0 {
			pre++
		}
	}
	return map[string]int{
		"decisions": s.decisions, "yields": int(s.steps), "preemptions": s.preemptions,
		"spins": s.spins, "selects": s.selects, "spawned": s.spawned, "stalls": s.stalls,
		"idle_jumps": s.idleJumps, "task_switches": s.taskSwitches, "sites_hit": hit, "sites_preempted": pre,
	}
}

// SiteHits returns the per-site execution counts (nil when NSites was 0).
func (s *Sim) SiteHits() []uint32 { return s.siteHits }

// Decisions returns the number of controller decisions taken so far.
func (s *Sim) Decisions() int { return s.decisions }

// TaskState reports whether the named task is "parked" (runnable when the
// controller says so), "blocked" (alive but waiting inside the runtime: channel,
// select, timer, I/O) or "gone".
func (s *Sim) TaskState(name string) string {
	s.mu.Lock()
	defer s.mu.Unlock()
	for _, t := range s.parked {
		if t.Name == name {
			return "parked"
		}
	}
	for _, t := range s.tasks {
		if t.Name == name {
			if t.g == s.running {
				return "running"
			}
			return "blocked"
		}
	}
	return "gone"
}

// NoStalls switches stall decisions off for the rest of the run.
func (s *Sim) NoStalls() { s.cfg.StallChoices = nil }
