package verifsim

// The choice tape: every decision of a simulated run is Tape.Choose(stream, n).
// Search mode draws from a PRNG seeded from one integer and records what it drew;
// replay mode feeds a recorded (possibly shrunk) list back. Value 0 is always the
// least disruptive choice, so an exhausted or zeroed tape means "no faults, no
// preemptions, first option".

const (
	// StreamPlan holds workload generation, configuration and fault placement
	// (drawn mostly before the simulation starts).
	StreamPlan = 0
	// StreamSched holds run-time decisions: who runs next, where to preempt,
	// delivery order and fragmentation, select order, stalls.
	StreamSched = 1
	nStreams    = 2
)

type splitmix struct{ x uint64 }

func (s *splitmix) next() uint64 {
	s.x += 0x9e3779b97f4a7c15
	z := s.x
	z = (z ^ (z >> 30)) * 0xbf58476d1ce4e5b9
	z = (z ^ (z >> 27)) * 0x94d049bb133111eb
	return z ^ (z >> 31)
}

// Mix hashes several integers into one PRNG seed.
func Mix(vs ...uint64) uint64 {
	s := splitmix{x: 0x243f6a8885a308d3}
	h := uint64(0)
	for _, v := range vs {
		s.x ^= v
		h = s.next() ^ (h<<7 | h>>57)
	}
	return h
}

// HashString is FNV-1a, used to fold names into seeds.
func HashString(str string) uint64 {
	h := uint64(14695981039346656037)
	for i := 0; i < len(str); i++ {
		h ^= uint64(str[i])
		h *= 1099511628211
	}
	return h
}

// Tape is the single source of choices of one run.
type Tape struct {
	replay bool
	rng    [nStreams]splitmix
	Vals   [nStreams][]int
	pos    [nStreams]int
	// Draws counts Choose calls with n > 1 per stream.
	Draws [nStreams]int
}

// NewSearchTape returns a tape that draws from a PRNG; each stream has its own
// generator so that the plan does not depend on how many scheduling decisions
// were taken before a plan value was drawn.
func NewSearchTape(seed uint64) *Tape {
	t := &Tape{}
	for i := range t.rng {
		t.rng[i] = splitmix{x: Mix(seed, uint64(i)+1)}
	}
	return t
}

// NewReplayTape returns a tape that replays the given values leniently: a value
// out of range is taken modulo n, an exhausted stream yields zeros.
func NewReplayTape(plan, sched []int) *Tape {
	t := &Tape{replay: true}
	t.Vals[StreamPlan] = plan
	t.Vals[StreamSched] = sched
	return t
}

// Choose returns a value in [0,n). n <= 1 consumes nothing.
func (t *Tape) Choose(stream, n int) int {
	if n <= 1 {
		return 0
	}
	t.Draws[stream]++
	if t.replay {
		p := t.pos[stream]
		t.pos[stream] = p + 1
		if p >= len(t.Vals[stream]) {
			return 0
		}
		v := t.Vals[stream][p]
		if v < 0 {
			v = -v
		}
		return v % n
	}
	v := int(t.rng[stream].next()>>33) % n
	t.Vals[stream] = append(t.Vals[stream], v)
	return v
}

// Consumed returns the values actually consumed so far on a stream (in replay
// mode: the prefix that was read, padded with zeros if the list was shorter).
func (t *Tape) Consumed(stream int) []int {
	if !t.replay {
		return t.Vals[stream]
	}
	n := t.pos[stream]
	out := make([]int, n)
	copy(out, t.Vals[stream])
	return out
}

// RawPrefix returns the first k raw values of a stream of a search tape (before
// reduction modulo the number of choices); replaying them reproduces the search
// run, whatever it asks for.
func (t *Tape) RawPrefix(stream, k int) []int {
	g := t.rng[stream]
	out := make([]int, k)
	for i := range out {
		out[i] = int(g.next() >> 33)
	}
	return out
}
