//go:build amd64

package verifsim

import "testing"

func TestGoidFast(t *testing.T) {
	if goidOff == 0 {
		t.Fatal("goid offset not calibrated")
	}
	done := make(chan bool)
	for i := 0; i < 8; i++ {
		go func() { done <- goid() == slowGoid() }()
	}
	for i := 0; i < 8; i++ {
		if !<-done {
			t.Fatal("fast goid differs from slow goid")
		}
	}
	t.Logf("goid offset %d", goidOff)
}

func BenchmarkGoidFast(b *testing.B) {
	for i := 0; i < b.N; i++ {
		goid()
	}
}

func BenchmarkGoidSlow(b *testing.B) {
	for i := 0; i < b.N; i++ {
		slowGoid()
	}
}
