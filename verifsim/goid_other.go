//go:build !amd64

package verifsim

func goid() int64 { return slowGoid() }

var goidOff uintptr
