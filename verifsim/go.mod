module verifsim

go 1.21
