// Package verifsim is the runtime of the deterministic simulator: a serialising
// scheduler for goroutines of instrumented code, the choice tape, and the
// controller loop. Instrumented code calls Yield/Acquire/Go/SelStart/...; all of
// them are no-ops (one atomic load) when no simulation is active.
package verifsim

import (
	"bytes"
	"fmt"
	"runtime"
	"sort"
	"strconv"
	"sync"
	"sync/atomic"
)

func slowGoid() int64 {
	var buf [64]byte
	n := runtime.Stack(buf[:], false)
	b := buf[:n]
	b = b[len("goroutine "):]
	i := bytes.IndexByte(b, ' ')
	id, _ := strconv.ParseInt(string(b[:i]), 10, 64)
	return id
}

// Task is a goroutine known to the scheduler.
type Task struct {
	Name      string
	g         int64
	wake      chan struct{}
	site      int
	spinning  bool
	spinEpoch int64
	children  map[int]int
	prio      int
	hasPrio   bool
	// Kind: "go" (created by instrumented code), "harness", "ext" (a goroutine of
	// uninstrumented code that entered instrumented code).
	Kind string
}

// Site returns the instrumentation site at which the task is parked.
func (t *Task) Site() int { return t.site }

var cur atomic.Pointer[Sim]

// Active reports whether a simulation is running.
func Active() bool { return cur.Load() != nil }

// Current returns the active simulation or nil.
func Current() *Sim { return cur.Load() }

func (s *Sim) taskFor(g int64, site int) *Task {
	t := s.tasks[g]
	if t == nil {
		n := s.extSeq[site]
		s.extSeq[site] = n + 1
		t = &Task{Name: fmt.Sprintf("ext@%d#%d", site, n), g: g, children: map[int]int{}, Kind: "ext"}
		s.tasks[g] = t
	}
	return t
}

func (s *Sim) park(g int64, site int, spinning bool) {
	s.mu.Lock()
	t := s.taskFor(g, site)
	t.site = site
	t.spinning = spinning
	t.spinEpoch = s.progress
	t.wake = make(chan struct{})
	s.parked = append(s.parked, t)
	if s.running == g {
		s.running = 0
	}
	w := t.wake
	s.mu.Unlock()
	select {
	case s.notify <- struct{}{}:
	default:
	}
	<-w
}

// Yield is inserted before every statement of instrumented code.
func Yield(site int) {
	s := cur.Load()
	if s == nil {
		return
	}
	if site >= 0 && site < len(s.siteOff) && s.siteOff[site] {
		return
	}
	g := goid()
	if g == s.ctrl {
		return
	}
	s.mu.Lock()
	if s.running != g {
		s.mu.Unlock()
		s.park(g, site, false)
		return
	}
	if s.nopre[g] > 0 {
		s.mu.Unlock()
		return
	}
	s.steps++
	s.progress++
	if site >= 0 && site < len(s.siteHits) {
		s.siteHits[site]++
	}
	preempt := false
	switch s.cfg.Policy {
	case PolicyRandom:
		if s.gap > 0 {
			s.gap--
			if s.gap == 0 {
				preempt = true
			}
		}
	case PolicyPCT:
		if s.change[s.steps] {
			s.lowPrio--
			t := s.taskFor(g, site)
			t.prio, t.hasPrio = s.lowPrio, true
			preempt = true
		}
	}
	if preempt {
		s.preemptions++
		if site >= 0 && site < len(s.sitePre) {
			s.sitePre[site]++
		}
	}
	s.mu.Unlock()
	if preempt {
		s.park(g, site, false)
	}
}

// ForceYield always parks (replacement for runtime.Gosched, and the harness's
// explicit scheduling points).
func ForceYield(site int) {
	s := cur.Load()
	if s == nil {
		runtime.Gosched()
		return
	}
	g := goid()
	if g == s.ctrl {
		return
	}
	s.mu.Lock()
	if s.running == g {
		s.steps++
		s.progress++
	}
	s.mu.Unlock()
	s.park(g, site, false)
}

// Acquire replaces x.Lock()/x.RLock(): it never blocks inside the runtime, so a
// task may be preempted while holding a lock.
func Acquire(try func() bool, site int) {
	s := cur.Load()
	if s == nil {
		for !try() {
			runtime.Gosched()
		}
		return
	}
	g := goid()
	if g == s.ctrl {
		if !try() {
			panic("verifsim: controller would block on a lock held by a task")
		}
		return
	}
	Yield(site)
	for !try() {
		s.mu.Lock()
		s.spins++
		s.mu.Unlock()
		s.park(g, site, true)
	}
	s.mu.Lock()
	s.progress++
	s.mu.Unlock()
}

func (s *Sim) childName(g int64, site int) string {
	if g == s.ctrl {
		n := s.extSeq[-site-1000000]
		s.extSeq[-site-1000000] = n + 1
		return fmt.Sprintf("root/%d#%d", site, n)
	}
	p := s.taskFor(g, site)
	n := p.children[site]
	p.children[site] = n + 1
	return fmt.Sprintf("%s/%d#%d", p.Name, site, n)
}

func (s *Sim) spawn(name, kind string, site int, f func()) {
	s.mu.Lock()
	s.spawned++
	s.mu.Unlock()
	go func() {
		cg := goid()
		s.mu.Lock()
		s.tasks[cg] = &Task{Name: name, g: cg, children: map[int]int{}, Kind: kind}
		s.mu.Unlock()
		s.park(cg, site, false)
		defer func() {
			s.mu.Lock()
			if s.running == cg {
				s.running = 0
			}
			delete(s.tasks, cg)
			s.progress++
			s.mu.Unlock()
			select {
			case s.notify <- struct{}{}:
			default:
			}
		}()
		f()
	}()
}

// Go replaces the go statement of instrumented code.
func Go(site int, f func()) {
	s := cur.Load()
	if s == nil {
		go f()
		return
	}
	g := goid()
	s.mu.Lock()
	name := s.childName(g, site)
	s.mu.Unlock()
	s.spawn(name, "go", site, f)
}

// Task starts a harness task with a fixed name.
func (s *Sim) Task(name string, f func()) {
	s.spawn(name, "harness", 0, f)
}

// NoPreemptEnter/Leave bracket a callback that runs while a library mutex is held.
func NoPreemptEnter() {
	s := cur.Load()
	if s == nil {
		return
	}
	g := goid()
	s.mu.Lock()
	s.nopre[g]++
	s.mu.Unlock()
}

func NoPreemptLeave() {
	s := cur.Load()
	if s == nil {
		return
	}
	g := goid()
	s.mu.Lock()
	s.nopre[g]--
	if s.nopre[g] <= 0 {
		delete(s.nopre, g)
	}
	s.mu.Unlock()
}

// SelStart returns the tape-chosen first case to try for a rewritten select, or
// -1 when no simulation is active.
func SelStart(n int, site int) int {
	s := cur.Load()
	if s == nil {
		return -1
	}
	g := goid()
	if g == s.ctrl {
		return 0
	}
	s.mu.Lock()
	run := s.running == g
	np := s.nopre[g] > 0
	s.mu.Unlock()
	if !run && !np {
		s.park(g, site, false)
	}
	s.mu.Lock()
	v := s.Tape.Choose(StreamSched, n)
	s.selects++
	s.mu.Unlock()
	return v
}

// SelMulti is called by a rewritten select when, in its try phase, a case other
// than the first tried was the one taken (i.e. the order mattered or the first
// was not ready). Only statistics.
func SelTaken(k int) {}

type ordKey interface {
	~int | ~int8 | ~int16 | ~int32 | ~int64 | ~uint | ~uint8 | ~uint16 | ~uint32 | ~uint64 | ~uintptr | ~float32 | ~float64 | ~string
}

// SortedKeys returns the keys of m in ascending order (replacement for the
// runtime's random map iteration order).
func SortedKeys[K ordKey, V any](m map[K]V) []K {
	keys := make([]K, 0, len(m))
	for k := range m {
		keys = append(keys, k)
	}
	sort.Slice(keys, func(i, j int) bool { return keys[i] < keys[j] })
	return keys
}

// OrderedRange replaces (*sync.Map).Range: collects, orders by a canonical
// rendering of the key, then calls f.
func OrderedRange(rng func(func(k, v interface{}) bool), f func(k, v interface{}) bool) {
	if cur.Load() == nil {
		rng(f)
		return
	}
	type kv struct {
		k, v interface{}
		s    string
	}
	var all []kv
	rng(func(k, v interface{}) bool {
		all = append(all, kv{k, v, fmt.Sprintf("%T|%v", k, k)})
		return true
	})
	sort.SliceStable(all, func(i, j int) bool { return all[i].s < all[j].s })
	for _, e := range all {
		if !f(e.k, e.v) {
			return
		}
	}
}

// Probe counts a named rare condition.
func Probe(name string) {
	s := cur.Load()
	if s == nil {
		return
	}
	s.mu.Lock()
	s.Probes[name]++
	s.mu.Unlock()
}

var _ = sync.Mutex{}

// NameCurrent gives the calling goroutine (one that was not created by
// instrumented code, e.g. a server library's per-connection goroutine) a
// deterministic task name before it enters instrumented code. Without it such
// goroutines are named by their order of arrival at their first yield, which is
// not reproducible when two of them start at the same time.
func NameCurrent(name string) {
	s := cur.Load()
	if s == nil {
		return
	}
	g := goid()
	if g == s.ctrl {
		return
	}
	s.mu.Lock()
	n := s.extSeq[int(HashString(name)&0x3fffffff)+2000000]
	s.extSeq[int(HashString(name)&0x3fffffff)+2000000] = n + 1
	s.tasks[g] = &Task{Name: fmt.Sprintf("%s#%d", name, n), g: g, children: map[int]int{}, Kind: "ext"}
	s.mu.Unlock()
}
