//go:build amd64

package verifsim

import (
	"sync"
	"unsafe"
)

// The goroutine id is read straight from the runtime's g structure. The offset
// of the goid field is not hard-coded: it is calibrated at start-up against the
// id printed by runtime.Stack, on several goroutines; if calibration fails the
// slow path (parsing runtime.Stack) stays in use.

func getg() unsafe.Pointer

var goidOff uintptr // 0 = not calibrated

func init() { calibrateGoid() }

func calibrateGoid() {
	cands := map[uintptr]int{}
	const tries = 4
	var wg sync.WaitGroup
	var mu sync.Mutex
	for i := 0; i < tries; i++ {
		wg.Add(1)
		go func() {
			defer wg.Done()
			want := slowGoid()
			g := getg()
			mu.Lock()
			for off := uintptr(0); off < 512; off += 8 {
				if *(*int64)(unsafe.Add(g, off)) == want {
					cands[off]++
				}
			}
			mu.Unlock()
		}()
	}
	wg.Wait()
	best := uintptr(0)
	n := 0
	for off, c := range cands {
		if c == tries {
			n++
			best = off
		}
	}
	if n == 1 {
		goidOff = best
	}
}

func goid() int64 {
	if goidOff != 0 {
		return *(*int64)(unsafe.Add(getg(), goidOff))
	}
	return slowGoid()
}
